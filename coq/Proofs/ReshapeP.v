(* The reshape loop terminates and produces exactly the requested mode sizes whenever the element counts agree (C10). *)
From Coq Require Import List Arith Lia Bool.
From TT Require Import Reshape.
Import ListNotations.

Definition allpos (l : list nat) : Prop := Forall (fun n => 1 <= n) l.

Lemma prodl_pos l : allpos l -> 1 <= prodl l.
Proof. induction 1; simpl; [lia|]. unfold prodl in *. simpl. nia. Qed.
Lemma prod1_ones l : allpos l -> prodl l = 1 -> l = repeat 1 (length l).
Proof.
  induction 1 as [|a l Ha Hl IH]; intros H; [reflexivity|]. unfold prodl in *. simpl in *.
  pose proof (prodl_pos l Hl) as Hp. unfold prodl in Hp.
  assert (a = 1 /\ fold_right Nat.mul 1 l = 1) by nia. destruct H0 as [-> H1]. rewrite <- IH by assumption. reflexivity.
Qed.

Lemma reshape_loop_spec : forall fuel c ins tg acc,
  length ins + length tg < fuel -> 1 <= c -> allpos ins -> allpos tg ->
  c * prodl ins = prodl tg ->
  reshape_loop fuel c ins tg acc = Some (rev acc ++ tg).
Proof.
  induction fuel as [|f IH]; intros c ins tg acc Hf Hc Hi Ht Hp; [lia|].
  cbn [reshape_loop]. destruct tg as [|t tgt].
  - rewrite app_nil_r. reflexivity.
  - inversion Ht as [|? ? Ht1 Ht2]; subst.
    assert (Hpt : prodl (t :: tgt) = t * prodl tgt) by reflexivity. rewrite Hpt in Hp.
    pose proof (prodl_pos tgt Ht2) as Hptp. pose proof (prodl_pos ins Hi) as Hpip.
    destruct (Nat.eqb_spec (c mod t) 0) as [Hm|Hm].
    + apply Nat.mod_divide in Hm; [|lia]. destruct Hm as [k Hk].
      assert (Hdiv : c / t = k) by (subst c; apply Nat.div_mul; lia).
      rewrite Hdiv. destruct (Nat.ltb_spec 1 k) as [Hk1|Hk1].
      * (* split *)
        rewrite (IH k ins tgt (t :: acc));
          [simpl; rewrite <- app_assoc; reflexivity | simpl in *; lia | lia | assumption | assumption | subst c; nia].
      * assert (k = 1) by nia. subst k. assert (c = t) by lia. subst c.
        destruct ins as [|n ins'].
        -- (* last input core *)
           unfold prodl in Hp at 1. simpl in Hp. assert (Hone : prodl tgt = 1) by nia.
           rewrite <- (prod1_ones tgt Ht2 Hone). simpl. rewrite <- app_assoc. reflexivity.
        -- inversion Hi as [|? ? Hn Hi']; subst.
           assert (Hpi : prodl (n :: ins') = n * prodl ins') by reflexivity. rewrite Hpi in Hp.
           rewrite (IH n ins' tgt (t :: acc));
             [simpl; rewrite <- app_assoc; reflexivity | simpl in *; lia | lia | assumption | assumption | nia].
    + destruct ins as [|n ins'].
      * exfalso. apply Hm. unfold prodl in Hp at 1. simpl in Hp. rewrite Nat.mul_1_r in Hp. subst c.
        rewrite Nat.mul_comm. apply Nat.mod_mul. lia.
      * inversion Hi as [|? ? Hn Hi']; subst.
        assert (Hpi : prodl (n :: ins') = n * prodl ins') by reflexivity. rewrite Hpi in Hp.
        rewrite (IH (c * n) ins' (t :: tgt) acc);
          [reflexivity | simpl in *; lia | nia | assumption | assumption | rewrite Hpt; nia].
Qed.

(* for every list of input modes and every target shape with the same number of elements (singleton modes anywhere, any ordered
   factorisation / merging): the loop terminates within its fuel and returns exactly the requested mode sizes *)
Theorem reshape_shape ns tg : ns <> [] -> allpos ns -> allpos tg -> prodl ns = prodl tg ->
  reshape_modes ns tg = Some tg.
Proof.
  intros Hne Hn Ht Hp. unfold reshape_modes. destruct ns as [|c ins]; [congruence|].
  inversion Hn; subst. rewrite (reshape_loop_spec _ c ins tg []); auto; simpl; lia.
Qed.

(* ---- operators ---- *)
Definition prodM (l : list (nat * nat)) : nat := prodl (map fst l).
Definition prodN (l : list (nat * nat)) : nat := prodl (map snd l).
Definition allpos2 (l : list (nat * nat)) : Prop := Forall (fun p => 1 <= fst p /\ 1 <= snd p) l.
Lemma allpos2_fst l : allpos2 l -> allpos (map fst l).
Proof. induction 1 as [|p l [H1 H2] Hl IH]; simpl; constructor; auto. Qed.
Lemma allpos2_snd l : allpos2 l -> allpos (map snd l).
Proof. induction 1 as [|p l [H1 H2] Hl IH]; simpl; constructor; auto. Qed.
Lemma prod1_ones2 l : allpos2 l -> prodM l = 1 -> prodN l = 1 -> l = repeat (1, 1) (length l).
Proof.
  intros H HM HN. pose proof (prod1_ones _ (allpos2_fst l H) HM) as E1. pose proof (prod1_ones _ (allpos2_snd l H) HN) as E2.
  rewrite !map_length in *. clear H HM HN. revert E1 E2. induction l as [|[a b] l IH]; intros E1 E2; [reflexivity|].
  cbn [map fst snd length repeat] in *. injection E1 as Ea E1'. injection E2 as Eb E2'. subst a b. f_equal. apply IH; assumption.
Qed.

Lemma reshape_loop4_spec : forall fuel cm cn ins tg acc,
  length ins + length tg < fuel -> 1 <= cm -> 1 <= cn -> allpos2 ins -> allpos2 tg ->
  cm * prodM ins = prodM tg -> cn * prodN ins = prodN tg ->
  reshape_loop4 fuel cm cn ins tg acc = Some (rev acc ++ tg).
Proof.
  induction fuel as [|f IH]; intros cm cn ins tg acc Hf Hcm Hcn Hi Ht HpM HpN; [lia|].
  cbn [reshape_loop4]. destruct tg as [|[tm tn] tgt].
  - rewrite app_nil_r. reflexivity.
  - inversion Ht as [|? ? [Htm Htn] Ht2]; subst. cbn [fst snd] in Htm, Htn.
    assert (HptM : prodM ((tm, tn) :: tgt) = tm * prodM tgt) by reflexivity.
    assert (HptN : prodN ((tm, tn) :: tgt) = tn * prodN tgt) by reflexivity. rewrite HptM in HpM. rewrite HptN in HpN.
    pose proof (prodl_pos _ (allpos2_fst tgt Ht2)) as HtMp. pose proof (prodl_pos _ (allpos2_snd tgt Ht2)) as HtNp.
    pose proof (prodl_pos _ (allpos2_fst ins Hi)) as HiMp. pose proof (prodl_pos _ (allpos2_snd ins Hi)) as HiNp.
    fold (prodM tgt) in HtMp. fold (prodN tgt) in HtNp. fold (prodM ins) in HiMp. fold (prodN ins) in HiNp.
    destruct (Nat.eqb_spec (cm mod tm) 0) as [HmM|HmM]; destruct (Nat.eqb_spec (cn mod tn) 0) as [HmN|HmN]; cbn [andb].
    + apply Nat.mod_divide in HmM; [|lia]. destruct HmM as [k Hk]. apply Nat.mod_divide in HmN; [|lia]. destruct HmN as [l Hl].
      assert (HdM : cm / tm = k) by (subst cm; apply Nat.div_mul; lia).
      assert (HdN : cn / tn = l) by (subst cn; apply Nat.div_mul; lia).
      rewrite HdM, HdN.
      destruct (Nat.ltb_spec 1 k) as [Hk1|Hk1]; destruct (Nat.ltb_spec 1 l) as [Hl1|Hl1]; cbn [orb];
        try (rewrite (IH k l ins tgt ((tm, tn) :: acc));
             [simpl; rewrite <- app_assoc; reflexivity | simpl in *; lia | nia | nia | assumption | assumption | subst cm; nia | subst cn; nia]).
      assert (k = 1) by nia. assert (l = 1) by nia. subst k l. assert (cm = tm) by lia. assert (cn = tn) by lia. subst cm cn.
      destruct ins as [|[m n] ins'].
      * change (prodM []) with 1 in HpM. change (prodN []) with 1 in HpN.
        assert (H1 : prodM tgt = 1) by nia. assert (H2 : prodN tgt = 1) by nia.
        rewrite <- (prod1_ones2 tgt Ht2 H1 H2). simpl. rewrite <- app_assoc. reflexivity.
      * inversion Hi as [|? ? [Hm Hn] Hi']; subst. cbn [fst snd] in Hm, Hn.
        assert (HpiM : prodM ((m, n) :: ins') = m * prodM ins') by reflexivity.
        assert (HpiN : prodN ((m, n) :: ins') = n * prodN ins') by reflexivity. rewrite HpiM in HpM. rewrite HpiN in HpN.
        rewrite (IH m n ins' tgt ((tm, tn) :: acc));
          [simpl; rewrite <- app_assoc; reflexivity | simpl in *; lia | lia | lia | assumption | assumption | nia | nia].
    + destruct ins as [|[m n] ins'].
      * exfalso. apply HmN. change (prodN []) with 1 in HpN. rewrite Nat.mul_1_r in HpN. subst cn. rewrite Nat.mul_comm. apply Nat.mod_mul. lia.
      * inversion Hi as [|? ? [Hm Hn] Hi']; subst. cbn [fst snd] in Hm, Hn.
        assert (HpiM : prodM ((m, n) :: ins') = m * prodM ins') by reflexivity.
        assert (HpiN : prodN ((m, n) :: ins') = n * prodN ins') by reflexivity. rewrite HpiM in HpM. rewrite HpiN in HpN.
        rewrite (IH (cm * m) (cn * n) ins' ((tm, tn) :: tgt) acc);
          [reflexivity | simpl in *; lia | nia | nia | assumption | assumption | rewrite HptM; nia | rewrite HptN; nia].
    + destruct ins as [|[m n] ins'].
      * exfalso. apply HmM. change (prodM []) with 1 in HpM. rewrite Nat.mul_1_r in HpM. subst cm. rewrite Nat.mul_comm. apply Nat.mod_mul. lia.
      * inversion Hi as [|? ? [Hm Hn] Hi']; subst. cbn [fst snd] in Hm, Hn.
        assert (HpiM : prodM ((m, n) :: ins') = m * prodM ins') by reflexivity.
        assert (HpiN : prodN ((m, n) :: ins') = n * prodN ins') by reflexivity. rewrite HpiM in HpM. rewrite HpiN in HpN.
        rewrite (IH (cm * m) (cn * n) ins' ((tm, tn) :: tgt) acc);
          [reflexivity | simpl in *; lia | nia | nia | assumption | assumption | rewrite HptM; nia | rewrite HptN; nia].
    + destruct ins as [|[m n] ins'].
      * exfalso. apply HmM. change (prodM []) with 1 in HpM. rewrite Nat.mul_1_r in HpM. subst cm. rewrite Nat.mul_comm. apply Nat.mod_mul. lia.
      * inversion Hi as [|? ? [Hm Hn] Hi']; subst. cbn [fst snd] in Hm, Hn.
        assert (HpiM : prodM ((m, n) :: ins') = m * prodM ins') by reflexivity.
        assert (HpiN : prodN ((m, n) :: ins') = n * prodN ins') by reflexivity. rewrite HpiM in HpM. rewrite HpiN in HpN.
        rewrite (IH (cm * m) (cn * n) ins' ((tm, tn) :: tgt) acc);
          [reflexivity | simpl in *; lia | nia | nia | assumption | assumption | rewrite HptM; nia | rewrite HptN; nia].
Qed.

(* operators: every list of input mode pairs, every target list with the same row and column element counts: termination and exactly the requested pairs *)
Theorem reshape_shape4 ns tg : ns <> [] -> allpos2 ns -> allpos2 tg -> prodM ns = prodM tg -> prodN ns = prodN tg ->
  reshape_modes4 ns tg = Some tg.
Proof.
  intros Hne Hn Ht HM HN. unfold reshape_modes4. destruct ns as [|[m n] ins]; [congruence|].
  inversion Hn as [|? ? [H1 H2] Hn']; subst. cbn [fst snd] in H1, H2.
  rewrite (reshape_loop4_spec _ m n ins tg []); auto; simpl; lia.
Qed.
