(* C16: the projector `proj` of ProjP (the formula the code implements, P = sum_{k=1}^{d-1} (A_{k-1} - A_k) B_k + A_{d-1}) is
   idempotent, self-adjoint, and leaves residuals orthogonal to its range, under exactly the algebraic facts that the orthogonal gauges
   provide: the A_k are a nested family of additive self-adjoint maps (A_j A_k = A_max(j,k)), each B_k is an additive self-adjoint
   idempotent, and A_j commutes with B_k whenever j <= k (they act on disjoint groups of modes).
   Proved by instantiating the operator-algebra theorems of ProjAlgP with E_k = A_k - A_(k+1), E_(d-1) = A_(d-1). *)
From Coq Require Import List Arith Lia.
From AAC_tactics Require Import AAC.
From TT Require Import ProjP ProjAlgP.
Import ListNotations.

Section Full.
Variable G : Type.
Variables (gz : G) (gadd : G -> G -> G) (gneg : G -> G).
Hypothesis gadd_0_l : forall a, gadd gz a = a.
Hypothesis gadd_assoc : forall a b c, gadd a (gadd b c) = gadd (gadd a b) c.
Hypothesis gadd_comm : forall a b, gadd a b = gadd b a.
Hypothesis gadd_neg : forall a, gadd a (gneg a) = gz.
Definition gsub (a b : G) : G := gadd a (gneg b).

Lemma gadd_0_r a : gadd a gz = a.
Proof. rewrite gadd_comm. apply gadd_0_l. Qed.

Instance gA : Associative eq gadd. Proof. intros a b c. apply gadd_assoc. Qed.
Instance gC : Commutative eq gadd. Proof. intros a b. apply gadd_comm. Qed.
Instance gU : Unit eq gadd gz. Proof. split; intros a; [apply gadd_0_l|apply gadd_0_r]. Qed.

Variables (A B : nat -> G -> G) (dm1 : nat).
Notation d := (S dm1).
Notation additive := (ProjAlgP.additive G gz gadd).
Hypothesis A_add : forall k, additive (A k).
Hypothesis B_add : forall k, additive (B k).
Hypothesis A_nest : forall j k x, A j (A k x) = A (Nat.max j k) x.
Hypothesis B_idem : forall k x, B k (B k x) = B k x.
Hypothesis AB_comm : forall j k x, j <= k -> A j (B k x) = B k (A j x).

Lemma add_neg h a : additive h -> h (gneg a) = gneg (h a).
Proof.
  intros [H0 Ha]. apply (gneg_unique G gz gadd gneg gadd_0_l gadd_0_r gadd_assoc gadd_comm gadd_neg).
  rewrite <- Ha, gadd_neg. exact H0.
Qed.

Notation E := (Ediff G gadd gneg A d).
Definition Bsh (k : nat) (x : G) : G := if Nat.eqb (S k) d then x else B (S k) x.

Lemma E_additive k : additive (E k).
Proof.
  destruct (A_add k) as [Hk0 Hka]. destruct (A_add (S k)) as [Hs0 Hsa].
  unfold Ediff. destruct (Nat.eqb (S k) d); split; auto.
  - rewrite Hk0, Hs0, gadd_0_l. rewrite <- (gadd_0_l (gneg gz)). apply gadd_neg.
  - intros a b. rewrite Hka, Hsa. rewrite (gneg_add G gz gadd gneg gadd_0_l gadd_0_r gadd_assoc gadd_comm gadd_neg). aac_reflexivity.
Qed.
Lemma Bsh_additive k : additive (Bsh k).
Proof. unfold Bsh. destruct (Nat.eqb (S k) d); [split; auto|apply B_add]. Qed.
Lemma E_Bsh_comm k x : k < d -> E k (Bsh k x) = Bsh k (E k x).
Proof.
  intros _. unfold Bsh, Ediff. destruct (Nat.eqb (S k) d); [reflexivity|].
  destruct (B_add (S k)) as [_ Hb]. rewrite Hb, (add_neg (B (S k))) by apply B_add.
  rewrite !AB_comm by lia. reflexivity.
Qed.
Lemma Bsh_idem k x : k < d -> Bsh k (Bsh k x) = Bsh k x.
Proof. intros _. unfold Bsh. destruct (Nat.eqb (S k) d); [reflexivity|apply B_idem]. Qed.
Lemma E_orth k j x : k < d -> j < d -> E k (E j x) = if Nat.eqb k j then E k x else gz.
Proof.
  apply (Ediff_orth G gz gadd gneg gadd_0_l gadd_0_r gadd_assoc gadd_comm gadd_neg A d).
  - intros i a b. destruct (A_add i) as [_ H]. apply H.
  - intros i a. apply add_neg, A_add.
  - exact A_nest.
Qed.

(* the formula of ProjP is the sum of ProjAlgP *)
Lemma proj_is_P z : proj G gz gadd gsub A B dm1 z = P G gz gadd E Bsh d z.
Proof.
  unfold proj, P. cbn [gsum].
  assert (Hlast : E dm1 (Bsh dm1 z) = A dm1 z).
  { unfold Ediff, Bsh. rewrite Nat.eqb_refl. reflexivity. }
  rewrite Hlast. f_equal.
  assert (H : forall n, n <= dm1 -> proj_terms G gz gadd gsub A B n z = gsum G gz gadd n (fun k => E k (Bsh k z))).
  { induction n; intros Hn; cbn [proj_terms gsum]; [reflexivity|]. rewrite IHn by lia. f_equal.
    unfold Ediff, Bsh. destruct (Nat.eqb_spec (S n) d); [lia|]. reflexivity. }
  apply H. lia.
Qed.

Theorem proj_idempotent z : proj G gz gadd gsub A B dm1 (proj G gz gadd gsub A B dm1 z) = proj G gz gadd gsub A B dm1 z.
Proof.
  rewrite !proj_is_P.
  apply (P_idempotent G gz gadd gadd_0_l gadd_0_r E Bsh d E_additive Bsh_additive E_orth E_Bsh_comm Bsh_idem).
Qed.

Variable K : Type.
Variables (kz : K) (kadd : K -> K -> K).
Variable ip : G -> G -> K.
Hypothesis ip_0_l : forall y, ip gz y = kz.
Hypothesis ip_0_r : forall x, ip x gz = kz.
Hypothesis ip_add_l : forall a b y, ip (gadd a b) y = kadd (ip a y) (ip b y).
Hypothesis ip_add_r : forall x a b, ip x (gadd a b) = kadd (ip x a) (ip x b).
Hypothesis ip_neg_l : forall a y, ip (gneg a) y = ip a (gneg y).
Hypothesis A_self : forall k x y, ip (A k x) y = ip x (A k y).
Hypothesis B_self : forall k x y, ip (B k x) y = ip x (B k y).

Lemma E_self k x y : k < d -> ip (E k x) y = ip x (E k y).
Proof.
  intros _. unfold Ediff. destruct (Nat.eqb (S k) d); [apply A_self|].
  rewrite ip_add_l, ip_add_r, ip_neg_l, !A_self. rewrite (add_neg (A (S k))) by apply A_add. reflexivity.
Qed.
Lemma Bsh_self k x y : k < d -> ip (Bsh k x) y = ip x (Bsh k y).
Proof. intros _. unfold Bsh. destruct (Nat.eqb (S k) d); [reflexivity|apply B_self]. Qed.

Theorem proj_selfadjoint x y : ip (proj G gz gadd gsub A B dm1 x) y = ip x (proj G gz gadd gsub A B dm1 y).
Proof.
  rewrite !proj_is_P.
  apply (P_selfadjoint G gz gadd E Bsh d E_Bsh_comm K kz kadd ip ip_0_l ip_0_r ip_add_l ip_add_r E_self Bsh_self).
Qed.

(* <P z, P w> = <z, P w>: the residual z - P z is orthogonal to every projected tensor *)
Theorem proj_residual_orthogonal z w :
  ip (proj G gz gadd gsub A B dm1 z) (proj G gz gadd gsub A B dm1 w) = ip z (proj G gz gadd gsub A B dm1 w).
Proof. rewrite proj_selfadjoint, proj_idempotent. reflexivity. Qed.
End Full.

(* ---- non-vacuity: 2 x 2 integer matrices z = (z00, z01, z10, z11), base point e0 e0^T; A_1 keeps row 0, B_1 keeps column 0.
   All hypotheses of the three theorems hold and P z = (z00, z01, z10, 0): the tangent space of the rank-one matrices at e0 e0^T. *)
From Coq Require Import ZArith.
Module Instance2x2.
Open Scope Z_scope.
Definition M := (Z * Z * Z * Z)%type.
Definition mz : M := (0, 0, 0, 0).
Definition madd (a b : M) : M := let '(a0, a1, a2, a3) := a in let '(b0, b1, b2, b3) := b in (a0 + b0, a1 + b1, a2 + b2, a3 + b3).
Definition mneg (a : M) : M := let '(a0, a1, a2, a3) := a in (- a0, - a1, - a2, - a3).
Definition mip (a b : M) : Z := let '(a0, a1, a2, a3) := a in let '(b0, b1, b2, b3) := b in a0 * b0 + a1 * b1 + a2 * b2 + a3 * b3.
Definition A (k : nat) (a : M) : M := match k with O => a | _ => let '(a0, a1, _, _) := a in (a0, a1, 0, 0) end.
Definition B (k : nat) (a : M) : M := let '(a0, _, a2, _) := a in (a0, 0, a2, 0).
Ltac crush := repeat match goal with x : M |- _ => destruct x as [[[? ?] ?] ?] end; cbn; unfold mz; repeat match goal with |- (_, _) = (_, _) => f_equal end; try ring.
Example hypotheses_hold :
  (forall a, madd mz a = a) /\ (forall a b c, madd a (madd b c) = madd (madd a b) c) /\ (forall a b, madd a b = madd b a) /\
  (forall a, madd a (mneg a) = mz) /\ (forall k, ProjAlgP.additive M mz madd (A k)) /\ (forall k, ProjAlgP.additive M mz madd (B k)) /\
  (forall j k x, A j (A k x) = A (Nat.max j k) x) /\ (forall k x, B k (B k x) = B k x) /\ (forall j k x, (j <= k)%nat -> A j (B k x) = B k (A j x)) /\
  (forall y, mip mz y = 0) /\ (forall x, mip x mz = 0) /\ (forall a b y, mip (madd a b) y = mip a y + mip b y) /\
  (forall x a b, mip x (madd a b) = mip x a + mip x b) /\ (forall a y, mip (mneg a) y = mip a (mneg y)) /\
  (forall k x y, mip (A k x) y = mip x (A k y)) /\ (forall k x y, mip (B k x) y = mip x (B k y)) /\
  proj M mz madd (gsub M madd mneg) A B 1 (1, 2, 3, 4) = (1, 2, 3, 0).
Proof.
  assert (Hadd : forall k, ProjAlgP.additive M mz madd (A k)).
  { intros [|k]; split; try reflexivity; intros a b; crush. }
  assert (Hbdd : forall k, ProjAlgP.additive M mz madd (B k)).
  { intros k; split; try reflexivity; intros a b; crush. }
  split; [intros a; crush|]. split; [intros a b c; crush|]. split; [intros a b; crush|]. split; [intros a; crush|].
  split; [exact Hadd|]. split; [exact Hbdd|].
  split; [intros [|j] [|k] x; crush; reflexivity|]. split; [intros k x; crush; reflexivity|].
  split; [intros [|j] [|k] x Hjk; crush; reflexivity|].
  split; [intros y; crush|]. split; [intros x; crush|]. split; [intros a b y; crush|]. split; [intros x a b; crush|].
  split; [intros a y; crush|]. split; [intros [|k] x y; crush|]. split; [intros k x y; crush|].
  reflexivity.
Qed.
End Instance2x2.
