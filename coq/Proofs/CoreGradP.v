(* The gradient of a tensor train with respect to ONE core (C15, C20): over dual numbers, if only the k-th core carries a perturbation,
   the derivative of every entry is  sum_{p,q} L_k(i_<k)[p] * dG_k[p, i_k, q] * R_k(i_>k)[q]  - the frame of the other cores applied to the
   perturbation.  Equivalently d x[i] / d G_k[p, j, q] = L_k[p] * [i_k = j] * R_k[q]: what torch.autograd returns for x.full() w.r.t. a core.
   And the derivative rule of the TT layer's forward map (C20). *)
From Coq Require Import List Arith Lia Ring Bool.
From TT Require Import RingSig Instances Dual SumN Mat Dense Core CoreP Arith ArithP MatOps MatOpsP ReduceDimsP FrameP DualP CoreGrad.
Import ListNotations.

Section CoreGradP.
Context {R : Type} {RO : RingOps R} {RL : RingLaws R}.
Add Ring Rcg : Rth.
Open Scope R_scope.
Arguments chainM : simpl never.

(* a core without perturbation *)
Definition tg0 (c : core3 (dual R)) : Prop := forall p i q, tg (e3 c p i q) = 0.

Lemma delta_tg i j : tg (@delta (dual R) _ i j) = 0.
Proof. unfold delta. destruct (Nat.eqb i j); reflexivity. Qed.

Lemma chain_tg0 (x : tt (dual R)) : Forall tg0 x -> forall idx p q, tg (chainM (slices x idx) p q) = 0.
Proof.
  induction x as [|c t IH]; intros H idx p q.
  - cbn [slices]. change (chainM (@nil (sl (dual R))) p q) with (@delta (dual R) _ p q). apply delta_tg.
  - destruct idx as [|i it]; [cbn [slices]; change (chainM (@nil (sl (dual R))) p q) with (@delta (dual R) _ p q); apply delta_tg|].
    inversion H as [|? ? Hc Ht]; subst. cbn [slices]. rewrite chainM_cons. rewrite sum_n_tg.
    apply sum_n_zero'. intros l _. rewrite tg_mul. rewrite (Hc p i l), (IH Ht it l q). ring.
Qed.

Theorem entry_core_grad k (x : tt (dual R)) idx c : wf x -> nth_error x k = Some c -> length idx = length x ->
  Forall tg0 (firstn k x) -> Forall tg0 (skipn (S k) x) ->
  tg (entry x idx) = sum_n (r0 c) (fun p => sum_n (r1 c) (fun q =>
    pr (phiL x idx k p) * tg (e3 c p (nth k idx 0%nat) q) * pr (phiR x idx k q))).
Proof.
  intros W Hc Hl HL HR. rewrite (entry_frame k x idx c W Hc Hl).
  rewrite sum_n_tg. apply sum_n_ext. intros p _. rewrite sum_n_tg. apply sum_n_ext. intros q _.
  rewrite !tg_mul, !pr_mul. unfold phiL, phiR.
  rewrite (chain_tg0 (firstn k x) HL), (chain_tg0 (skipn (S k) x) HR). ring.
Qed.

(* ---- Model/CoreGrad.v is that derivative: perturb the single entry (p0, i0, q0) of core k by one; the derivative of sum_idx w[idx] * x[idx]
   is entry (p0, i0, q0) of core_grad (on the primal parts) ---- *)
Definition cst (a : R) : dual R := mkDual a 0.
Definition unit_dir (c : core3 (dual R)) (p0 i0 q0 : nat) : Prop :=
  forall p i q, tg (e3 c p i q) = if Nat.eqb p p0 && Nat.eqb i i0 && Nat.eqb q q0 then 1 else 0.

Lemma slices_pr (x : tt (dual R)) : forall idx,
  map (fun s : sl (dual R) => (fst s, fun a b => pr (snd s a b))) (slices x idx) = slices (map pr_core x) idx.
Proof. induction x as [|c cs IH]; intros [|i it]; simpl; auto. rewrite IH. reflexivity. Qed.
Lemma phiL_pr (x : tt (dual R)) idx k p : pr (phiL x idx k p) = fL (map pr_core x) idx k p.
Proof. unfold phiL, fL. rewrite chain_pr, slices_pr, firstn_map. reflexivity. Qed.
Lemma phiR_pr (x : tt (dual R)) idx k q : pr (phiR x idx k q) = fR (map pr_core x) idx k q.
Proof. unfold phiR, fR. rewrite chain_pr, slices_pr, skipn_map. reflexivity. Qed.

Theorem weighted_sum_core_grad k (x : tt (dual R)) (w : list nat -> R) c p0 i0 q0 :
  wf x -> nth_error x k = Some c -> (p0 < r0 c)%nat -> (q0 < r1 c)%nat ->
  Forall tg0 (firstn k x) -> Forall tg0 (skipn (S k) x) -> unit_dir c p0 i0 q0 ->
  tg (sum_idx (shape x) (fun idx => cst (w idx) * entry x idx)) = e3 (core_grad (map pr_core x) k w) p0 i0 q0.
Proof.
  intros W Hc Hp Hq HL HR Hu.
  unfold core_grad. rewrite nth_error_map, Hc. cbn [option_map pr_core e3].
  assert (Hs : shape (map pr_core x) = shape x) by (unfold shape; rewrite map_map; reflexivity).
  rewrite Hs, sum_idx_tg. apply sum_idx_ext. intros idx Hl _.
  unfold shape in Hl. rewrite map_length in Hl.
  rewrite tg_mul. cbn [cst pr tg].
  rewrite (entry_core_grad k x idx c W Hc Hl HL HR).
  rewrite (sum_n_ext (r0 c) _ (fun p => delta p0 p * (if Nat.eqb (nth k idx 0%nat) i0 then fL (map pr_core x) idx k p * fR (map pr_core x) idx k q0 else 0))).
  - rewrite sum_n_delta_l by exact Hp. destruct (Nat.eqb (nth k idx 0%nat) i0); ring.
  - intros p _.
    rewrite (sum_n_ext (r1 c) _ (fun q => delta q0 q * (delta p0 p * (if Nat.eqb (nth k idx 0%nat) i0 then fL (map pr_core x) idx k p * fR (map pr_core x) idx k q else 0)))).
    + rewrite sum_n_delta_l by exact Hq. reflexivity.
    + intros q _. rewrite Hu, phiL_pr, phiR_pr. unfold delta.
      rewrite (Nat.eqb_sym p0 p), (Nat.eqb_sym q0 q).
      destruct (Nat.eqb p p0), (Nat.eqb (nth k idx 0%nat) i0), (Nat.eqb q q0); cbn [andb]; ring.
Qed.

(* ... and with respect to one core of a TT MATRIX (the weights of the layer), through the merged row-column mode *)
Theorem entry4_core_grad k (W : ttm (dual R)) ms ns c : wf4 W -> nth_error W k = Some c -> length ms = length W -> Forall2 lt ns (shapeN W) ->
  Forall tg0 (firstn k (flatM W)) -> Forall tg0 (skipn (S k) (flatM W)) ->
  let idx := merge_idx (shapeN W) ms ns in
  tg (entry4 W ms ns) = sum_n (q0 c) (fun p => sum_n (q1 c) (fun q =>
    pr (phiL (flatM W) idx k p) * tg (e3 (flat4 c) p (nth k idx 0%nat) q) * pr (phiR (flatM W) idx k q))).
Proof.
  intros WW Hc Hl HF HL HR idx.
  rewrite entry4_flat by assumption. fold idx.
  assert (Hn : length ns = length W) by (apply Forall2_length in HF; unfold shapeN in HF; rewrite map_length in HF; exact HF).
  rewrite (entry_core_grad k (flatM W) idx (flat4 c)); try assumption.
  - reflexivity.
  - apply flatM_wf. exact WW.
  - unfold flatM. rewrite nth_error_map, Hc. reflexivity.
  - unfold idx. rewrite merge_length; unfold shapeN; rewrite ?map_length, ?flatM_length; auto.
Qed.

(* the TT layer: derivative of forward(W, bias, X) in a direction carried by W, bias and X *)
Theorem forward_grad (W : ttm (dual R)) (bias X : dense (dual R)) b ms :
  wf4 W -> length ms = length W -> length b = (length (dshape X) - length W)%nat ->
  (length W <= length (dshape X))%nat -> dshape bias = shapeM W ->
  tg (dget (forward W bias X) (b ++ ms)) =
    sum_idx (shapeN W) (fun ns => pr (entry4 W ms ns) * tg (dget X (b ++ ns)) + tg (entry4 W ms ns) * pr (dget X (b ++ ns))) + tg (dget bias ms).
Proof. intros. rewrite forward_affine by assumption. rewrite tg_add, sum_idx_tg. reflexivity. Qed.

End CoreGradP.
