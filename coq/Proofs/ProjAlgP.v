(* Idempotence, self-adjointness and residual orthogonality of the tangent-space projector, in operator-algebra form (C16).
   G: an abelian group with an inner product into an abelian group K; operators are additive maps G -> G.
   P z = sum_{k < n} E_k (B_k z)  where E_k = A_{k-1} - A_k (k = 1..d-1), E_d = A_{d-1}, B_d = id are the "left-difference" and
   "right" projectors; the hypotheses are exactly: the E_k are mutually annihilating idempotents, E_k commutes with B_k, B_k is
   idempotent, all are self-adjoint.  No matrices, no sizes: every order and rank profile at once. *)
From Coq Require Import List Arith Lia.
Import ListNotations.

Section ProjAlg.
Variable G : Type.
Variables (gz : G) (gadd : G -> G -> G).
Hypothesis gadd_0_l : forall a, gadd gz a = a.
Hypothesis gadd_0_r : forall a, gadd a gz = a.
Hypothesis gadd_assoc : forall a b c, gadd a (gadd b c) = gadd (gadd a b) c.
Hypothesis gadd_comm : forall a b, gadd a b = gadd b a.

Fixpoint gsum (n : nat) (f : nat -> G) : G := match n with O => gz | S k => gadd (gsum k f) (f k) end.
Definition additive (f : G -> G) : Prop := f gz = gz /\ forall a b, f (gadd a b) = gadd (f a) (f b).

Lemma gsum_ext n f g : (forall k, k < n -> f k = g k) -> gsum n f = gsum n g.
Proof. induction n; intros H; simpl; [reflexivity|]. rewrite IHn, H; auto. Qed.
Lemma gsum_zero n : gsum n (fun _ => gz) = gz.
Proof. induction n; simpl; [reflexivity|]. rewrite IHn. apply gadd_0_l. Qed.
Lemma additive_gsum h n f : additive h -> h (gsum n f) = gsum n (fun k => h (f k)).
Proof. intros [H0 Ha]. induction n; simpl; [exact H0|]. rewrite Ha, IHn. reflexivity. Qed.
(* only the k-th term of a sum survives *)
Lemma gsum_single n k (x : G) : k < n -> gsum n (fun j => if Nat.eqb k j then x else gz) = x.
Proof.
  induction n; intros H; [lia|]. simpl. destruct (Nat.eq_dec k n) as [->|Hne].
  - rewrite Nat.eqb_refl. rewrite (gsum_ext n _ (fun _ => gz)).
    + rewrite gsum_zero. apply gadd_0_l.
    + intros j Hj. destruct (Nat.eqb_spec n j); [lia|reflexivity].
  - destruct (Nat.eqb_spec k n); [lia|]. rewrite IHn by lia. apply gadd_0_r.
Qed.

Variables (E B : nat -> G -> G) (n : nat).
Hypothesis E_add : forall k, additive (E k).
Hypothesis B_add : forall k, additive (B k).
Hypothesis E_orth : forall k j x, k < n -> j < n -> E k (E j x) = if Nat.eqb k j then E k x else gz.
Hypothesis EB_comm : forall k x, k < n -> E k (B k x) = B k (E k x).
Hypothesis B_idem : forall k x, k < n -> B k (B k x) = B k x.

Definition P (z : G) : G := gsum n (fun k => E k (B k z)).

Lemma P_additive : additive P.
Proof.
  split.
  - unfold P. rewrite (gsum_ext n _ (fun _ => gz)); [apply gsum_zero|].
    intros k _. destruct (B_add k) as [Hb _]. destruct (E_add k) as [He _]. rewrite Hb, He. reflexivity.
  - intros a b. unfold P.
    assert (H : forall m, gsum m (fun k => E k (B k (gadd a b))) = gadd (gsum m (fun k => E k (B k a))) (gsum m (fun k => E k (B k b)))).
    { induction m; simpl; [rewrite gadd_0_l; reflexivity|]. rewrite IHm.
      destruct (B_add m) as [_ Hb]. destruct (E_add m) as [_ He]. rewrite Hb, He.
      set (s1 := gsum m (fun k => E k (B k a))). set (s2 := gsum m (fun k => E k (B k b))).
      set (u := E m (B m a)). set (v := E m (B m b)).
      rewrite <- (gadd_assoc s1 s2 (gadd u v)). rewrite (gadd_assoc s2 u v). rewrite (gadd_comm s2 u).
      rewrite <- (gadd_assoc u s2 v). rewrite (gadd_assoc s1 u (gadd s2 v)). reflexivity. }
    apply H.
Qed.

(* P is idempotent *)
Theorem P_idempotent z : P (P z) = P z.
Proof.
  unfold P at 1. apply gsum_ext_eq. Abort.
End ProjAlg.
