(* Idempotence, self-adjointness and residual orthogonality of the tangent-space projector, in operator-algebra form (C16).
   G: an abelian group with an inner product into an abelian group K; operators are additive maps G -> G.
   P z = sum_{k < n} E_k (B_k z)  where E_k = A_{k-1} - A_k (k = 1..d-1), E_d = A_{d-1}, B_d = id are the "left-difference" and
   "right" projectors; the hypotheses are exactly: the E_k are mutually annihilating idempotents, E_k commutes with B_k, B_k is
   idempotent, all are self-adjoint.  No matrices, no sizes: every order and rank profile at once. *)
From Coq Require Import List Arith Lia.
Import ListNotations.

Section ProjAlg.
Variable G : Type.
Variables (gz : G) (gadd : G -> G -> G).
Hypothesis gadd_0_l : forall a, gadd gz a = a.
Hypothesis gadd_0_r : forall a, gadd a gz = a.
Hypothesis gadd_assoc : forall a b c, gadd a (gadd b c) = gadd (gadd a b) c.
Hypothesis gadd_comm : forall a b, gadd a b = gadd b a.

Fixpoint gsum (n : nat) (f : nat -> G) : G := match n with O => gz | S k => gadd (gsum k f) (f k) end.
Definition additive (f : G -> G) : Prop := f gz = gz /\ forall a b, f (gadd a b) = gadd (f a) (f b).

Lemma gsum_ext n f g : (forall k, k < n -> f k = g k) -> gsum n f = gsum n g.
Proof. induction n; intros H; simpl; [reflexivity|]. rewrite IHn, H; auto. Qed.
Lemma gsum_zero n : gsum n (fun _ => gz) = gz.
Proof. induction n; simpl; [reflexivity|]. rewrite IHn. apply gadd_0_l. Qed.
Lemma additive_gsum h n f : additive h -> h (gsum n f) = gsum n (fun k => h (f k)).
Proof. intros [H0 Ha]. induction n; simpl; [exact H0|]. rewrite Ha, IHn. reflexivity. Qed.
(* only the k-th term of a sum survives *)
Lemma gsum_single n k (x : G) : k < n -> gsum n (fun j => if Nat.eqb k j then x else gz) = x.
Proof.
  induction n; intros H; [lia|]. simpl. destruct (Nat.eq_dec k n) as [->|Hne].
  - rewrite Nat.eqb_refl. rewrite (gsum_ext n _ (fun _ => gz)).
    + rewrite gsum_zero. apply gadd_0_l.
    + intros j Hj. destruct (Nat.eqb_spec n j); [lia|reflexivity].
  - destruct (Nat.eqb_spec k n); [lia|]. rewrite IHn by lia. apply gadd_0_r.
Qed.

Variables (E B : nat -> G -> G) (n : nat).
Hypothesis E_add : forall k, additive (E k).
Hypothesis B_add : forall k, additive (B k).
Hypothesis E_orth : forall k j x, k < n -> j < n -> E k (E j x) = if Nat.eqb k j then E k x else gz.
Hypothesis EB_comm : forall k x, k < n -> E k (B k x) = B k (E k x).
Hypothesis B_idem : forall k x, k < n -> B k (B k x) = B k x.

Definition P (z : G) : G := gsum n (fun k => E k (B k z)).

Lemma P_additive : additive P.
Proof.
  split.
  - unfold P. rewrite (gsum_ext n _ (fun _ => gz)); [apply gsum_zero|].
    intros k _. destruct (B_add k) as [Hb _]. destruct (E_add k) as [He _]. rewrite Hb, He. reflexivity.
  - intros a b. unfold P.
    assert (H : forall m, gsum m (fun k => E k (B k (gadd a b))) = gadd (gsum m (fun k => E k (B k a))) (gsum m (fun k => E k (B k b)))).
    { induction m; simpl; [rewrite gadd_0_l; reflexivity|]. rewrite IHm.
      destruct (B_add m) as [_ Hb]. destruct (E_add m) as [_ He]. rewrite Hb, He.
      set (s1 := gsum m (fun k => E k (B k a))). set (s2 := gsum m (fun k => E k (B k b))).
      set (u := E m (B m a)). set (v := E m (B m b)).
      rewrite <- (gadd_assoc s1 s2 (gadd u v)). rewrite (gadd_assoc s2 u v). rewrite (gadd_comm s2 u).
      rewrite <- (gadd_assoc u s2 v). rewrite (gadd_assoc s1 u (gadd s2 v)). reflexivity. }
    apply H.
Qed.

(* P is idempotent *)
Theorem P_idempotent z : P (P z) = P z.
Proof.
  unfold P at 1. apply gsum_ext. intros k Hk.
  (* E_k B_k (sum_j E_j B_j z) = sum_j B_k E_k E_j B_j z = B_k E_k B_k z *)
  unfold P. rewrite (additive_gsum (B k)) by apply B_add. rewrite (additive_gsum (E k)) by apply E_add.
  rewrite (gsum_ext n _ (fun j => if Nat.eqb k j then E k (B k z) else gz)).
  - apply gsum_single; exact Hk.
  - intros j Hj. rewrite EB_comm by exact Hk. rewrite E_orth by assumption.
    destruct (Nat.eqb_spec k j) as [<-|Hne].
    + rewrite <- EB_comm by exact Hk. rewrite EB_comm by exact Hk.
      rewrite <- (EB_comm k (B k z)) by exact Hk. rewrite B_idem by exact Hk. reflexivity.
    + destruct (B_add k) as [Hb _]. exact Hb.
Qed.

(* inner product: K abelian group, ip additive in each argument; E_k, B_k self-adjoint *)
Variable K : Type.
Variables (kz : K) (kadd : K -> K -> K).
Variable ip : G -> G -> K.
Hypothesis ip_0_l : forall y, ip gz y = kz.
Hypothesis ip_0_r : forall x, ip x gz = kz.
Hypothesis ip_add_l : forall a b y, ip (gadd a b) y = kadd (ip a y) (ip b y).
Hypothesis ip_add_r : forall x a b, ip x (gadd a b) = kadd (ip x a) (ip x b).
Hypothesis E_self : forall k x y, k < n -> ip (E k x) y = ip x (E k y).
Hypothesis B_self : forall k x y, k < n -> ip (B k x) y = ip x (B k y).

Theorem P_selfadjoint x y : ip (P x) y = ip x (P y).
Proof.
  unfold P.
  assert (H : forall m, m <= n -> ip (gsum m (fun k => E k (B k x))) y = ip x (gsum m (fun k => E k (B k y)))).
  { induction m; intros Hm; simpl.
    - rewrite ip_0_l, ip_0_r. reflexivity.
    - rewrite ip_add_l, ip_add_r, IHm by lia. f_equal.
      rewrite E_self by lia. rewrite B_self by lia. rewrite EB_comm by lia. reflexivity. }
  apply H. lia.
Qed.

(* the residual z - P z is orthogonal to the range of P: <z, P w> = <P z, P w>  (subtraction-free form) *)
Theorem P_residual_orthogonal z w : ip (P z) (P w) = ip z (P w).
Proof. rewrite P_selfadjoint. rewrite P_idempotent. reflexivity. Qed.
End ProjAlg.

(* ---- the E_k of the code: differences of a nested family of projectors ----
   A : nat -> G -> G with A_j (A_k x) = A_(max j k) x (the left interface projectors: U_{<=k} U_{<=k}^T, nested ranges, A_0 = id),
   E_k = A_k - A_(k+1) for k < d-1 and E_(d-1) = A_(d-1): the hypothesis E_orth of the section follows. *)
Section Nested.
Variable G : Type.
Variables (gz : G) (gadd : G -> G -> G) (gneg : G -> G).
Hypothesis gadd_0_l : forall a, gadd gz a = a.
Hypothesis gadd_0_r : forall a, gadd a gz = a.
Hypothesis gadd_assoc : forall a b c, gadd a (gadd b c) = gadd (gadd a b) c.
Hypothesis gadd_comm : forall a b, gadd a b = gadd b a.
Hypothesis gadd_neg : forall a, gadd a (gneg a) = gz.
Variable A : nat -> G -> G.
Variable d : nat.
Hypothesis A_add : forall k a b, A k (gadd a b) = gadd (A k a) (A k b).
Hypothesis A_neg : forall k a, A k (gneg a) = gneg (A k a).
Hypothesis A_nest : forall j k x, A j (A k x) = A (Nat.max j k) x.

Definition Ediff (k : nat) (x : G) : G := if Nat.eqb (S k) d then A k x else gadd (A k x) (gneg (A (S k) x)).

Lemma gneg_unique a b : gadd a b = gz -> b = gneg a.
Proof.
  intros H. rewrite <- (gadd_0_l b). rewrite <- (gadd_neg a) at 1. rewrite (gadd_comm a (gneg a)).
  rewrite <- gadd_assoc. rewrite H. apply gadd_0_r.
Qed.
Lemma gneg_add a b : gneg (gadd a b) = gadd (gneg a) (gneg b).
Proof.
  symmetry. apply gneg_unique.
  rewrite (gadd_comm (gneg a) (gneg b)). rewrite gadd_assoc. rewrite <- (gadd_assoc a b (gneg b)).
  rewrite gadd_neg, gadd_0_r. apply gadd_neg.
Qed.
Lemma gneg_neg a : gneg (gneg a) = a.
Proof. symmetry. apply gneg_unique. rewrite gadd_comm. apply gadd_neg. Qed.

Theorem Ediff_orth k j x : k < d -> j < d -> Ediff k (Ediff j x) = if Nat.eqb k j then Ediff k x else gz.
Proof.
  intros Hk Hj. unfold Ediff.
  destruct (Nat.eqb_spec (S k) d) as [Hkd|Hkd]; destruct (Nat.eqb_spec (S j) d) as [Hjd|Hjd].
  - assert (k = j) by lia. subst j. rewrite Nat.eqb_refl. rewrite A_nest, Nat.max_id. reflexivity.
  - (* k = d-1 > j *) destruct (Nat.eqb_spec k j); [lia|].
    rewrite A_add, A_neg, !A_nest. replace (Nat.max k j) with k by lia. replace (Nat.max k (S j)) with k by lia. apply gadd_neg.
  - (* j = d-1 > k *) destruct (Nat.eqb_spec k j); [lia|].
    rewrite !A_nest. replace (Nat.max k j) with j by lia. replace (Nat.max (S k) j) with j by lia. apply gadd_neg.
  - rewrite !A_add, !A_neg, !A_nest. rewrite gneg_add, gneg_neg.
    destruct (Nat.eqb_spec k j) as [<-|Hne].
    + rewrite Nat.max_id. replace (Nat.max k (S k)) with (S k) by lia. replace (Nat.max (S k) k) with (S k) by lia. rewrite Nat.max_id.
      set (a := A k x). set (b := A (S k) x).
      rewrite <- (gadd_assoc a (gneg b)). rewrite (gadd_assoc (gneg b) (gneg b) b). rewrite <- (gadd_assoc (gneg b) (gneg b) b).
      rewrite (gadd_comm (gneg b) b), gadd_neg, gadd_0_r. reflexivity.
    + destruct (Nat.lt_ge_cases k j) as [Hlt|Hge].
      * replace (Nat.max k j) with j by lia. replace (Nat.max k (S j)) with (S j) by lia.
        replace (Nat.max (S k) j) with j by lia. replace (Nat.max (S k) (S j)) with (S j) by lia.
        set (a := A j x). set (b := A (S j) x).
        rewrite <- (gadd_assoc a (gneg b)). rewrite (gadd_assoc (gneg b) (gneg a) b). rewrite (gadd_comm (gneg b) (gneg a)).
        rewrite <- (gadd_assoc (gneg a) (gneg b) b). rewrite (gadd_comm (gneg b) b), gadd_neg, gadd_0_r. apply gadd_neg.
      * assert (j < k) by lia.
        replace (Nat.max k j) with k by lia. replace (Nat.max k (S j)) with k by lia.
        replace (Nat.max (S k) j) with (S k) by lia. replace (Nat.max (S k) (S j)) with (S k) by lia.
        set (a := A k x). set (b := A (S k) x).
        rewrite gadd_neg, gadd_0_l. rewrite gadd_comm. apply gadd_neg.
Qed.
End Nested.
