(* Orthogonal gauges: if every core of a train (read from the left) has an orthonormal left unfolding, the interface matrix
   L(i_1..i_k)[p] = (G_1[i_1] ... G_k[i_k])[0, p] has orthonormal columns:  sum_idx conj(L(idx)[p]) L(idx)[q] = delta p q.
   This is what lr_orthogonal establishes core by core (QR) and what the rounding sweep (C02: the spectrum of the last core is the
   spectrum of the tensor), the QR norm (C07), the local problems (C11-C13) and the tangent projector (C16) rely on. *)
From Coq Require Import List Arith Lia Ring Bool.
From TT Require Import RingSig SumN Mat Dense Core CoreP FrobP Arith ArithP Reduce ReduceP ReduceDimsP BilinearP.
Import ListNotations.

Section OrthP.
Context {R : Type} {RO : RingOps R} {RL : RingLaws R}.
Add Ring Rr16o : Rth.
Open Scope R_scope.

Arguments chainM : simpl never.

Definition slice_of (c : core3 R) (i : nat) : mat R := fun a l => e3 c a i l.
(* the left unfolding (r0*n) x r1 of the core has orthonormal columns *)
Definition left_orth (c : core3 R) : Prop :=
  forall p q, (p < r1 c)%nat -> (q < r1 c)%nat ->
    sum_n (nn c) (fun i => mmul (r0 c) (adj (slice_of c i)) (slice_of c i) p q) = delta p q.

Fixpoint endrank (r : nat) (x : tt R) : nat := match x with [] => r | c :: t => endrank (r1 c) t end.
(* consecutive cores agree on the shared rank, starting from r (no condition on the last rank: prefixes of a train qualify) *)
Fixpoint linked (r : nat) (x : tt R) : Prop := match x with [] => True | c :: t => r0 c = r /\ linked (r1 c) t end.
Lemma chained_linked (x : tt R) : forall r, chained r x -> linked r x.
Proof. induction x as [|c t IH]; intros r H; cbn [chained linked] in *; [exact I|]. destruct H as [H1 H2]. split; auto. Qed.
Definition gram (r : nat) (x : tt R) (p q : nat) : R :=
  sum_idx (shape x) (fun idx => mmul r (adj (chainM (slices x idx))) (chainM (slices x idx)) p q).

Lemma adj_mmul k (A B : mat R) i j : adj (mmul k A B) i j = mmul k (adj B) (adj A) i j.
Proof. unfold adj, mmul. rewrite sum_n_conj. apply sum_n_ext. intros l _. rewrite conj_mul. ring. Qed.

Lemma chain_cons_mmul (c : core3 R) t i it a p : chainM (slices (c :: t) (i :: it)) a p = mmul (r1 c) (slice_of c i) (chainM (slices t it)) a p.
Proof. reflexivity. Qed.

Theorem gram_left_orth : forall (x : tt R) r, linked r x -> Forall left_orth x ->
  forall p q, (p < endrank r x)%nat -> (q < endrank r x)%nat -> gram r x p q = delta p q.
Proof.
  induction x as [|c t IH]; intros r Hch Hall p q Hp Hq.
  - unfold gram. cbn [shape map sum_idx slices endrank] in *.
    change (chainM (@nil (sl R))) with (@Id R RO). unfold mmul, adj, Id.
    rewrite (sum_n_ext r _ (fun l => delta p l * delta l q)).
    2:{ intros l _. unfold delta. rewrite Nat.eqb_sym. destruct (Nat.eqb p l); [rewrite conj_1|rewrite conj_0]; reflexivity. }
    rewrite sum_n_delta_l by exact Hp. reflexivity.
  - destruct Hch as [Hr Hch]. inversion Hall as [|? ? Hc Ht]; subst. cbn [endrank] in Hp, Hq.
    unfold gram. cbn [shape map sum_idx]. fold (shape t).
    (* per (i, it): (M T)^H (M T) = T^H (M^H M) T *)
    rewrite (sum_n_ext (nn c) _ (fun i => sum_idx (shape t) (fun it =>
        mmul (r1 c) (adj (chainM (slices t it))) (mmul (r1 c) (mmul (r0 c) (adj (slice_of c i)) (slice_of c i)) (chainM (slices t it))) p q))).
    2:{ intros i _. apply sum_idx_ext. intros it _ _.
        unfold mmul at 1.
        rewrite (sum_n_ext (r0 c) _ (fun a => mmul (r1 c) (adj (chainM (slices t it))) (adj (slice_of c i)) p a * mmul (r1 c) (slice_of c i) (chainM (slices t it)) a q)).
        2:{ intros a _. rewrite <- adj_mmul. reflexivity. }
        change (sum_n (r0 c) (fun a => mmul (r1 c) (adj (chainM (slices t it))) (adj (slice_of c i)) p a * mmul (r1 c) (slice_of c i) (chainM (slices t it)) a q))
          with (mmul (r0 c) (mmul (r1 c) (adj (chainM (slices t it))) (adj (slice_of c i))) (mmul (r1 c) (slice_of c i) (chainM (slices t it))) p q).
        rewrite mmul_assoc. apply mmul_ext; [reflexivity|]. intros l _. rewrite <- mmul_assoc. reflexivity. }
    (* exchange the sums: sum_i sum_it -> sum_it sum_i, and push sum_i inside the product *)
    rewrite <- sum_idx_sum_n_swap.
    rewrite (sum_idx_ext (shape t) _ (fun it => mmul (r1 c) (adj (chainM (slices t it))) (chainM (slices t it)) p q)).
    + apply (IH (r1 c)); assumption.
    + intros it _ _.
      set (T := chainM (slices t it)).
      set (G := fun i => mmul (r0 c) (adj (slice_of c i)) (slice_of c i)).
      rewrite (sum_n_ext (nn c) _ (fun i => sum_n (r1 c) (fun l => adj T p l * mmul (r1 c) (G i) T l q))) by (intros; reflexivity).
      rewrite sum_n_swap.
      change (mmul (r1 c) (adj T) T p q) with (sum_n (r1 c) (fun l => adj T p l * T l q)).
      apply sum_n_ext. intros l Hl. rewrite sum_n_scal_l. f_equal.
      (* sum_i (G_i T)[l,q] = ((sum_i G_i) T)[l,q] = T[l,q] *)
      rewrite (sum_n_ext (nn c) _ (fun i => sum_n (r1 c) (fun m => G i l m * T m q))) by (intros; reflexivity).
      rewrite sum_n_swap.
      rewrite (sum_n_ext (r1 c) _ (fun m => delta l m * T m q)).
      2:{ intros m Hm. rewrite sum_n_scal_r. unfold G. rewrite (Hc l m Hl Hm). reflexivity. }
      rewrite sum_n_delta_l by exact Hl. reflexivity.
Qed.

(* for a whole prefix starting at the boundary rank 1: the interface vectors are orthonormal *)
Corollary interface_orthonormal (x : tt R) p q : linked 1 x -> Forall left_orth x -> (p < endrank 1 x)%nat -> (q < endrank 1 x)%nat ->
  sum_idx (shape x) (fun idx => rconj (chainM (slices x idx) 0%nat p) * chainM (slices x idx) 0%nat q) = delta p q.
Proof.
  intros Hch Hall Hp Hq. rewrite <- (gram_left_orth x 1 Hch Hall p q Hp Hq). unfold gram.
  apply sum_idx_ext. intros idx _ _. unfold mmul, adj. rewrite sum_n_1. reflexivity.
Qed.

(* the interface matrix is an isometry: <L v, L w> = <v, w> *)
Lemma interface_isometry (x : tt R) (v w : nat -> R) : linked 1 x -> Forall left_orth x ->
  sum_idx (shape x) (fun idx => sum_n (endrank 1 x) (fun p => chainM (slices x idx) 0%nat p * v p) *
                                rconj (sum_n (endrank 1 x) (fun q => chainM (slices x idx) 0%nat q * w q)))
  = sum_n (endrank 1 x) (fun p => v p * rconj (w p)).
Proof.
  intros Hch Hall. set (e := endrank 1 x).
  rewrite (sum_idx_ext (shape x) _ (fun idx => sum_n e (fun p => sum_n e (fun q =>
      (v p * rconj (w q)) * (rconj (chainM (slices x idx) 0%nat q) * chainM (slices x idx) 0%nat p))))).
  2:{ intros idx _ _. rewrite sum_n_conj. rewrite <- sum_n_scal_r. apply sum_n_ext. intros p _.
      rewrite <- sum_n_scal_l. apply sum_n_ext. intros q _. rewrite conj_mul. ring. }
  rewrite sum_idx_sum_n_swap. apply sum_n_ext. intros p Hp.
  rewrite sum_idx_sum_n_swap.
  rewrite (sum_n_ext e _ (fun q => delta p q * (v p * rconj (w q)))).
  2:{ intros q Hq. rewrite sum_idx_scal_l. rewrite (interface_orthonormal x q p Hch Hall Hq Hp).
      unfold delta. rewrite Nat.eqb_sym. ring. }
  rewrite sum_n_delta_l by exact Hp. reflexivity.
Qed.

Lemma lastk_slices (x : tt R) : forall r idx, length idx = length x -> lastk r (slices x idx) = endrank r x.
Proof. induction x as [|c t IH]; intros r [|i it] H; simpl in *; try discriminate; auto. Qed.

Lemma entry_snoc (pre : tt R) (c : core3 R) ip i : length ip = length pre -> r1 c = 1%nat ->
  entry (pre ++ [c]) (ip ++ [i]) = sum_n (endrank 1 pre) (fun p => chainM (slices pre ip) 0%nat p * e3 c p i 0%nat).
Proof.
  intros Hl H1. unfold entry. rewrite slices_snoc by exact Hl.
  rewrite (chainM_app _ _ 1%nat) by lia. rewrite lastk_slices by exact Hl. unfold mmul.
  apply sum_n_ext. intros p _. rewrite chainM_single by lia. reflexivity.
Qed.

(* the squared norm of a train whose cores but the last are left-orthogonal is the squared norm of its last core:
   what norm() returns after its QR sweep, and why the spectrum of the last core of an orthogonalised train is the spectrum of the tensor *)
Theorem norm2_last_core (pre : tt R) (c : core3 R) : linked 1 pre -> Forall left_orth pre -> r1 c = 1%nat ->
  sum_idx (shape (pre ++ [c])) (fun idx => entry (pre ++ [c]) idx * rconj (entry (pre ++ [c]) idx))
  = sum_n (nn c) (fun i => sum_n (endrank 1 pre) (fun p => e3 c p i 0%nat * rconj (e3 c p i 0%nat))).
Proof.
  intros Hch Hall H1.
  unfold shape. rewrite map_app. fold (shape pre). cbn [map]. rewrite sum_idx_app.
  rewrite (sum_idx_ext (shape pre) _ (fun ip => sum_n (nn c) (fun i =>
      sum_n (endrank 1 pre) (fun p => chainM (slices pre ip) 0%nat p * e3 c p i 0%nat) *
      rconj (sum_n (endrank 1 pre) (fun q => chainM (slices pre ip) 0%nat q * e3 c q i 0%nat))))).
  2:{ intros ip Hl _. cbn [sum_idx]. apply sum_n_ext. intros i _. unfold shape in Hl. rewrite map_length in Hl.
      rewrite !entry_snoc by assumption. reflexivity. }
  rewrite sum_idx_sum_n_swap. apply sum_n_ext. intros i _.
  apply (interface_isometry pre (fun p => e3 c p i 0%nat) (fun p => e3 c p i 0%nat) Hch Hall).
Qed.

(* ---- the left interface projector A = U U^H (C16), as its kernel K(i, j) = sum_p L(i)[p] conj(L(j)[p]) on the leading modes:
   from the orthogonality of the gauge alone it is Hermitian, idempotent, and fixes every tensor whose leading cores are these cores ---- *)
Definition kernelL (x : tt R) (i j : list nat) : R :=
  sum_n (endrank 1 x) (fun p => chainM (slices x i) 0%nat p * rconj (chainM (slices x j) 0%nat p)).

Theorem kernelL_hermitian (x : tt R) i j : kernelL x j i = rconj (kernelL x i j).
Proof. unfold kernelL. rewrite sum_n_conj. apply sum_n_ext. intros p _. rewrite conj_mul, conj_inv. ring. Qed.

Theorem kernelL_idempotent (x : tt R) i k : linked 1 x -> Forall left_orth x ->
  sum_idx (shape x) (fun j => kernelL x i j * kernelL x j k) = kernelL x i k.
Proof.
  intros Hl Hall. unfold kernelL. set (e := endrank 1 x).
  rewrite (sum_idx_ext (shape x) _ (fun j => sum_n e (fun p => sum_n e (fun q =>
      (chainM (slices x i) 0%nat p * rconj (chainM (slices x k) 0%nat q)) * (rconj (chainM (slices x j) 0%nat p) * chainM (slices x j) 0%nat q))))).
  2:{ intros j _ _. rewrite <- sum_n_scal_r. apply sum_n_ext. intros p _. rewrite <- sum_n_scal_l. apply sum_n_ext. intros q _. ring. }
  rewrite sum_idx_sum_n_swap. apply sum_n_ext. intros p Hp.
  rewrite sum_idx_sum_n_swap.
  rewrite (sum_n_ext e _ (fun q => delta p q * (chainM (slices x i) 0%nat p * rconj (chainM (slices x k) 0%nat q)))).
  2:{ intros q Hq. rewrite sum_idx_scal_l. rewrite (interface_orthonormal x p q Hl Hall Hp Hq). ring. }
  rewrite sum_n_delta_l by exact Hp. reflexivity.
Qed.

(* A x = x for a tensor whose leading part is x's own orthogonal prefix: any coefficients t(p) on the interface *)
Theorem kernelL_fixes (x : tt R) (t : nat -> R) i : linked 1 x -> Forall left_orth x ->
  sum_idx (shape x) (fun j => kernelL x i j * sum_n (endrank 1 x) (fun q => chainM (slices x j) 0%nat q * t q))
  = sum_n (endrank 1 x) (fun p => chainM (slices x i) 0%nat p * t p).
Proof.
  intros Hl Hall. unfold kernelL. set (e := endrank 1 x).
  rewrite (sum_idx_ext (shape x) _ (fun j => sum_n e (fun p => sum_n e (fun q =>
      (chainM (slices x i) 0%nat p * t q) * (rconj (chainM (slices x j) 0%nat p) * chainM (slices x j) 0%nat q))))).
  2:{ intros j _ _. rewrite <- sum_n_scal_r. apply sum_n_ext. intros p _. rewrite <- sum_n_scal_l. apply sum_n_ext. intros q _. ring. }
  rewrite sum_idx_sum_n_swap. apply sum_n_ext. intros p Hp.
  rewrite sum_idx_sum_n_swap.
  rewrite (sum_n_ext e _ (fun q => delta p q * (chainM (slices x i) 0%nat p * t q))).
  2:{ intros q Hq. rewrite sum_idx_scal_l. rewrite (interface_orthonormal x p q Hl Hall Hp Hq). ring. }
  rewrite sum_n_delta_l by exact Hp. reflexivity.
Qed.

(* ---- one truncation step of the rounding sweep, at tensor level: with an orthogonal prefix, replacing the last core by ANY other core
   changes the tensor by exactly the Frobenius distance of the two cores (the interface is an isometry).  So the energy discarded by the
   truncated SVD of the small matrix is the squared error of the full tensor - what makes the matrix-level budget of C02 a bound on
   ||x - round(x)||. ---- *)
Definition csub (a b : core3 R) : core3 R := mk3 (r0 a) (nn a) (r1 a) (fun p i q => e3 a p i q - e3 b p i q).
Theorem last_core_error (pre : tt R) (c c' : core3 R) : linked 1 pre -> Forall left_orth pre -> r1 c = 1%nat -> r1 c' = 1%nat -> nn c' = nn c ->
  sum_idx (shape (pre ++ [c])) (fun idx => (entry (pre ++ [c]) idx - entry (pre ++ [c']) idx) * rconj (entry (pre ++ [c]) idx - entry (pre ++ [c']) idx))
  = sum_n (nn c) (fun i => sum_n (endrank 1 pre) (fun p => (e3 c p i 0%nat - e3 c' p i 0%nat) * rconj (e3 c p i 0%nat - e3 c' p i 0%nat))).
Proof.
  intros Hl Hall H1 H1' Hn.
  pose proof (norm2_last_core pre (csub c c') Hl Hall) as HN. cbn [csub r1 nn e3] in HN. rewrite <- HN by exact H1. clear HN.
  assert (Hs : shape (pre ++ [csub c c']) = shape (pre ++ [c])) by (unfold shape; rewrite !map_app; reflexivity).
  rewrite Hs. apply sum_idx_ext. intros idx Hlen _.
  assert (E : entry (pre ++ [csub c c']) idx = entry (pre ++ [c]) idx - entry (pre ++ [c']) idx).
  { unfold shape in Hlen. rewrite map_length, app_length in Hlen. cbn [length] in Hlen.
    destruct (exists_last (l := idx)) as [ip [i Ei]]; [intros ->; simpl in Hlen; lia|]. subst idx.
    rewrite app_length in Hlen. cbn [length] in Hlen. assert (Hip : length ip = length pre) by lia.
    rewrite !entry_snoc by (try assumption; cbn [csub r1]; assumption).
    rewrite <- sum_n_sub. apply sum_n_ext. intros p _. cbn [csub e3]. ring. }
  rewrite E. reflexivity.
Qed.

(* nesting: the projector of a prefix fixes the interface vectors of every LONGER prefix of the same train (range(U_k) is contained in
   range(U_j (x) I) for j <= k), hence A_j A_k = A_k: the nesting hypothesis of the projector theorems comes with the train structure *)
Theorem kernelL_nested (pre mid : tt R) i m q : linked 1 pre -> Forall left_orth pre -> length i = length pre ->
  sum_idx (shape pre) (fun j => kernelL pre i j * chainM (slices (pre ++ mid) (j ++ m)) 0%nat q)
  = chainM (slices (pre ++ mid) (i ++ m)) 0%nat q.
Proof.
  intros Hl Hall Hi.
  assert (Hsplit : forall j, length j = length pre ->
            chainM (slices (pre ++ mid) (j ++ m)) 0%nat q = sum_n (endrank 1 pre) (fun p => chainM (slices pre j) 0%nat p * chainM (slices mid m) p q)).
  { intros j Hj. rewrite slices_app2 by exact Hj. rewrite (chainM_app _ _ 1%nat) by lia. rewrite lastk_slices by exact Hj. reflexivity. }
  rewrite (Hsplit i Hi).
  rewrite <- (kernelL_fixes pre (fun p => chainM (slices mid m) p q) i Hl Hall).
  apply sum_idx_ext. intros j Hj _. unfold shape in Hj. rewrite map_length in Hj. rewrite (Hsplit j Hj). reflexivity.
Qed.

(* operators given by kernels on DISJOINT groups of modes commute (the left projector of bond j acts on the modes <= j, the right
   projector of bond k >= j on the modes > k): A (B f) = B (A f), for any kernels and any tensor f *)
Theorem kernels_commute (na nc : list nat) (KA KB : list nat -> list nat -> R) (f : list nat -> list nat -> R) a c :
  sum_idx na (fun a' => KA a a' * sum_idx nc (fun c' => KB c c' * f a' c'))
  = sum_idx nc (fun c' => KB c c' * sum_idx na (fun a' => KA a a' * f a' c')).
Proof.
  rewrite (sum_idx_ext na _ (fun a' => sum_idx nc (fun c' => KA a a' * (KB c c' * f a' c')))).
  2:{ intros a' _ _. rewrite sum_idx_scal_l. reflexivity. }
  rewrite sum_idx_swap. apply sum_idx_ext. intros c' _ _.
  rewrite <- sum_idx_scal_l. apply sum_idx_ext. intros a' _ _. ring.
Qed.

End OrthP.

(* ---- the mirror image: trains read from the right (rl_orthogonal) ---- *)
Section Mirror.
Context {R : Type} {RO : RingOps R} {RL : RingLaws R}.
Add Ring Rr16m : Rth.
Open Scope R_scope.
Arguments chainM : simpl never.

Definition flip_core (c : core3 R) : core3 R := mk3 (r1 c) (nn c) (r0 c) (fun p i q => e3 c q i p).
Definition rev_tt (x : tt R) : tt R := map flip_core (rev x).
(* the right unfolding r0 x (n*r1) of the core has orthonormal rows (up to conjugation): the flipped core is left-orthogonal *)
Definition right_orth (c : core3 R) : Prop := left_orth (flip_core c).

Lemma chainM_snoc (l : list (sl R)) : forall r k A i j, (i < r)%nat -> (j < k)%nat ->
  chainM (l ++ [(k, A)]) i j = sum_n (lastk r l) (fun m => chainM l i m * A m j).
Proof.
  intros r k A i j Hi Hj. rewrite (chainM_app l [(k, A)] r i j Hi). unfold mmul. apply sum_n_ext. intros m _.
  rewrite chainM_single by exact Hj. reflexivity.
Qed.
Lemma lastk_app_single (l : list (sl R)) : forall s k A, lastk s (l ++ [(k, A)]) = k.
Proof. induction l as [|[k' B] l IH]; intros s k A; cbn [app lastk]; [reflexivity|apply IH]. Qed.
Lemma lastk_rev (y : tt R) : forall jd r0_ s, length jd = length y -> linked r0_ y ->
  lastk s (slices (rev_tt y) (rev jd)) = match y with [] => s | _ => r0_ end.
Proof.
  destruct y as [|a y]; intros jd r0_ s Hj Hc; destruct jd as [|j jt]; simpl in Hj; try discriminate; [reflexivity|].
  destruct Hc as [Ha Hc]. unfold rev_tt. cbn [rev]. rewrite map_app. cbn [map]. fold (rev_tt y).
  rewrite slices_snoc by (unfold rev_tt; rewrite map_length, !rev_length; lia).
  rewrite lastk_app_single. cbn [flip_core r1]. exact Ha.
Qed.

(* reading the train backwards transposes every partial product *)
Lemma rev_chain : forall (x : tt R) idx r p q, length idx = length x -> linked r x -> (p < r)%nat -> (q < endrank r x)%nat ->
  chainM (slices (rev_tt x) (rev idx)) q p = chainM (slices x idx) p q.
Proof.
  induction x as [|c t IH]; intros idx r p q Hl Hch Hp Hq; destruct idx as [|i it]; simpl in Hl; try discriminate.
  - cbn [rev_tt rev map slices endrank] in *. change (chainM (@nil (sl R))) with (@Id R RO). unfold Id, delta. rewrite Nat.eqb_sym. reflexivity.
  - destruct Hch as [Hr Hch]. cbn [endrank] in Hq.
    unfold rev_tt. cbn [rev]. rewrite map_app. cbn [map]. fold (rev_tt t).
    assert (Hlr : length (rev it) = length (rev_tt t)) by (unfold rev_tt; rewrite map_length, !rev_length; lia).
    rewrite slices_snoc by exact Hlr.
    rewrite (chainM_snoc _ (endrank (r1 c) t)); [| exact Hq | cbn [flip_core r1]; lia ].
    cbn [flip_core r1 e3].
    assert (Hlk : lastk (endrank (r1 c) t) (slices (rev_tt t) (rev it)) = r1 c).
    { rewrite (lastk_rev t it (r1 c)) by (auto; lia). destruct t as [|c' t']; [reflexivity|reflexivity]. }
    rewrite Hlk. cbn [slices]. rewrite chainM_cons. cbn [r1]. apply sum_n_ext. intros m Hm.
    rewrite (IH it (r1 c) m q) by (auto; lia). ring.
Qed.

Lemma chained_endrank (x : tt R) : forall r, chained r x -> endrank r x = 1%nat.
Proof. induction x as [|c t IH]; intros r H; cbn [chained endrank] in *; [exact H|]. destruct H as [_ H]. apply IH. exact H. Qed.

Theorem entry_rev (x : tt R) idx : wf x -> length idx = length x -> entry (rev_tt x) (rev idx) = entry x idx.
Proof.
  intros [_ Hch] Hl. unfold entry. apply (rev_chain x idx 1%nat 0%nat 0%nat Hl (chained_linked x 1 Hch)); [lia|].
  rewrite (chained_endrank x 1 Hch). lia.
Qed.

(* summing over a box in reversed order of the modes *)
Lemma sum_idx_snoc (ns : list nat) : forall n (f : list nat -> R),
  sum_idx (ns ++ [n]) f = sum_n n (fun j => sum_idx ns (fun is_ => f (is_ ++ [j]))).
Proof. intros n f. rewrite sum_idx_app. cbn [sum_idx]. rewrite sum_idx_sum_n_swap. reflexivity. Qed.
Lemma sum_idx_rev (ns : list nat) : forall (f : list nat -> R), sum_idx (rev ns) (fun idx => f (rev idx)) = sum_idx ns f.
Proof.
  induction ns as [|n t IH]; intros f; cbn [rev sum_idx]; [reflexivity|].
  rewrite sum_idx_snoc. apply sum_n_ext. intros j _.
  rewrite <- (IH (fun js => f (j :: js))). apply sum_idx_ext. intros is_ _ _.
  rewrite rev_app_distr. reflexivity.
Qed.
Lemma rev_tt_shape (x : tt R) : shape (rev_tt x) = rev (shape x).
Proof. unfold rev_tt, shape. rewrite map_map, map_rev. reflexivity. Qed.

Lemma linked_app (l : tt R) : forall s (l2 : tt R), linked s l -> linked (endrank s l) l2 -> linked s (l ++ l2).
Proof.
  induction l as [|b l IH]; intros s l2 H1 H2; cbn [app linked endrank] in *; [exact H2|].
  destruct H1 as [Hb H1]. split; [exact Hb|]. apply IH; assumption.
Qed.
Lemma endrank_app (l : tt R) : forall s (l2 : tt R), endrank s (l ++ l2) = endrank (endrank s l) l2.
Proof. induction l as [|b l IH]; intros s l2; cbn [app endrank]; [reflexivity|apply IH]. Qed.
(* the reversed train is linked from the end rank of the original back to its first rank *)
Lemma linked_rev (x : tt R) : forall r, linked r x -> linked (endrank r x) (rev_tt x) /\ endrank (endrank r x) (rev_tt x) = r.
Proof.
  induction x as [|c t IH]; intros r H; cbn [linked endrank] in *; [split; [exact I|reflexivity]|].
  destruct H as [Hr H]. destruct (IH (r1 c) H) as [H1 H2].
  unfold rev_tt. cbn [rev]. rewrite map_app. cbn [map]. fold (rev_tt t). split.
  - apply linked_app; [exact H1|]. rewrite H2. cbn [linked flip_core r0]. split; [reflexivity|exact I].
  - rewrite endrank_app. cbn [endrank flip_core r1]. exact Hr.
Qed.

(* the squared norm of a train whose cores but the FIRST are right-orthogonal (what rl_orthogonal leaves) is the squared norm of its first core *)
Theorem norm2_first_core (c : core3 R) (post : tt R) : r0 c = 1%nat -> chained (r1 c) post -> Forall right_orth post ->
  sum_idx (shape (c :: post)) (fun idx => entry (c :: post) idx * rconj (entry (c :: post) idx))
  = sum_n (nn c) (fun i => sum_n (r1 c) (fun p => e3 c 0%nat i p * rconj (e3 c 0%nat i p))).
Proof.
  intros H0 Hch Hall.
  assert (Hwf : wf (c :: post)) by (split; [discriminate|split; [exact H0|exact Hch]]).
  rewrite <- (sum_idx_rev (shape (c :: post))).
  rewrite (sum_idx_ext (rev (shape (c :: post))) _ (fun idx => entry (rev_tt (c :: post)) idx * rconj (entry (rev_tt (c :: post)) idx))).
  2:{ intros idx Hl _. rewrite rev_length in Hl. unfold shape in Hl. rewrite map_length in Hl.
      rewrite <- (entry_rev (c :: post) (rev idx)) by (auto; rewrite rev_length; exact Hl). rewrite rev_involutive. reflexivity. }
  rewrite <- rev_tt_shape.
  unfold rev_tt. cbn [rev]. rewrite map_app. cbn [map]. fold (rev_tt post).
  destruct (linked_rev post (r1 c) (chained_linked post (r1 c) Hch)) as [Hl He].
  rewrite (chained_endrank post (r1 c) Hch) in Hl, He.
  rewrite (norm2_last_core (rev_tt post) (flip_core c)).
  - cbn [flip_core nn e3]. rewrite He. reflexivity.
  - exact Hl.
  - unfold rev_tt. apply Forall_forall. intros a Ha. apply in_map_iff in Ha. destruct Ha as [b [<- Hb]].
    apply in_rev in Hb. rewrite Forall_forall in Hall. apply Hall. exact Hb.
  - cbn [flip_core r1]. exact H0.
Qed.

End Mirror.
