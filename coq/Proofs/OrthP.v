(* Orthogonal gauges: if every core of a train (read from the left) has an orthonormal left unfolding, the interface matrix
   L(i_1..i_k)[p] = (G_1[i_1] ... G_k[i_k])[0, p] has orthonormal columns:  sum_idx conj(L(idx)[p]) L(idx)[q] = delta p q.
   This is what lr_orthogonal establishes core by core (QR) and what the rounding sweep (C02: the spectrum of the last core is the
   spectrum of the tensor), the QR norm (C07), the local problems (C11-C13) and the tangent projector (C16) rely on. *)
From Coq Require Import List Arith Lia Ring Bool.
From TT Require Import RingSig SumN Mat Dense Core CoreP FrobP Arith ArithP Reduce ReduceP ReduceDimsP.
Import ListNotations.

Section OrthP.
Context {R : Type} {RO : RingOps R} {RL : RingLaws R}.
Add Ring Rr16o : Rth.
Open Scope R_scope.

Arguments chainM : simpl never.

Definition slice_of (c : core3 R) (i : nat) : mat R := fun a l => e3 c a i l.
(* the left unfolding (r0*n) x r1 of the core has orthonormal columns *)
Definition left_orth (c : core3 R) : Prop :=
  forall p q, (p < r1 c)%nat -> (q < r1 c)%nat ->
    sum_n (nn c) (fun i => mmul (r0 c) (adj (slice_of c i)) (slice_of c i) p q) = delta p q.

Fixpoint endrank (r : nat) (x : tt R) : nat := match x with [] => r | c :: t => endrank (r1 c) t end.
Definition gram (r : nat) (x : tt R) (p q : nat) : R :=
  sum_idx (shape x) (fun idx => mmul r (adj (chainM (slices x idx))) (chainM (slices x idx)) p q).

Lemma adj_mmul k (A B : mat R) i j : adj (mmul k A B) i j = mmul k (adj B) (adj A) i j.
Proof. unfold adj, mmul. rewrite sum_n_conj. apply sum_n_ext. intros l _. rewrite conj_mul. ring. Qed.

Lemma chain_cons_mmul (c : core3 R) t i it a p : chainM (slices (c :: t) (i :: it)) a p = mmul (r1 c) (slice_of c i) (chainM (slices t it)) a p.
Proof. reflexivity. Qed.

Theorem gram_left_orth : forall (x : tt R) r, chained r x -> Forall left_orth x ->
  forall p q, (p < endrank r x)%nat -> (q < endrank r x)%nat -> gram r x p q = delta p q.
Proof.
  induction x as [|c t IH]; intros r Hch Hall p q Hp Hq.
  - unfold gram. cbn [shape map sum_idx slices endrank] in *.
    change (chainM (@nil (sl R))) with (@Id R RO). unfold mmul, adj, Id.
    rewrite (sum_n_ext r _ (fun l => delta p l * delta l q)).
    2:{ intros l _. unfold delta. rewrite Nat.eqb_sym. destruct (Nat.eqb p l); [rewrite conj_1|rewrite conj_0]; reflexivity. }
    rewrite sum_n_delta_l by exact Hp. reflexivity.
  - destruct Hch as [Hr Hch]. inversion Hall as [|? ? Hc Ht]; subst. cbn [endrank] in Hp, Hq.
    unfold gram. cbn [shape map sum_idx]. fold (shape t).
    (* per (i, it): (M T)^H (M T) = T^H (M^H M) T *)
    rewrite (sum_n_ext (nn c) _ (fun i => sum_idx (shape t) (fun it =>
        mmul (r1 c) (adj (chainM (slices t it))) (mmul (r1 c) (mmul (r0 c) (adj (slice_of c i)) (slice_of c i)) (chainM (slices t it))) p q))).
    2:{ intros i _. apply sum_idx_ext. intros it _ _.
        unfold mmul at 1.
        rewrite (sum_n_ext (r0 c) _ (fun a => mmul (r1 c) (adj (chainM (slices t it))) (adj (slice_of c i)) p a * mmul (r1 c) (slice_of c i) (chainM (slices t it)) a q)).
        2:{ intros a _. rewrite <- adj_mmul. reflexivity. }
        change (sum_n (r0 c) (fun a => mmul (r1 c) (adj (chainM (slices t it))) (adj (slice_of c i)) p a * mmul (r1 c) (slice_of c i) (chainM (slices t it)) a q))
          with (mmul (r0 c) (mmul (r1 c) (adj (chainM (slices t it))) (adj (slice_of c i))) (mmul (r1 c) (slice_of c i) (chainM (slices t it))) p q).
        rewrite mmul_assoc. apply mmul_ext; [reflexivity|]. intros l _. rewrite <- mmul_assoc. reflexivity. }
    (* exchange the sums: sum_i sum_it -> sum_it sum_i, and push sum_i inside the product *)
    rewrite <- sum_idx_sum_n_swap.
    rewrite (sum_idx_ext (shape t) _ (fun it => mmul (r1 c) (adj (chainM (slices t it))) (chainM (slices t it)) p q)).
    + apply (IH (r1 c)); assumption.
    + intros it _ _.
      set (T := chainM (slices t it)).
      set (G := fun i => mmul (r0 c) (adj (slice_of c i)) (slice_of c i)).
      rewrite (sum_n_ext (nn c) _ (fun i => sum_n (r1 c) (fun l => adj T p l * mmul (r1 c) (G i) T l q))) by (intros; reflexivity).
      rewrite sum_n_swap.
      change (mmul (r1 c) (adj T) T p q) with (sum_n (r1 c) (fun l => adj T p l * T l q)).
      apply sum_n_ext. intros l Hl. rewrite sum_n_scal_l. f_equal.
      (* sum_i (G_i T)[l,q] = ((sum_i G_i) T)[l,q] = T[l,q] *)
      rewrite (sum_n_ext (nn c) _ (fun i => sum_n (r1 c) (fun m => G i l m * T m q))) by (intros; reflexivity).
      rewrite sum_n_swap.
      rewrite (sum_n_ext (r1 c) _ (fun m => delta l m * T m q)).
      2:{ intros m Hm. rewrite sum_n_scal_r. unfold G. rewrite (Hc l m Hl Hm). reflexivity. }
      rewrite sum_n_delta_l by exact Hl. reflexivity.
Qed.

(* for a whole prefix starting at the boundary rank 1: the interface vectors are orthonormal *)
Corollary interface_orthonormal (x : tt R) p q : chained 1 x -> Forall left_orth x -> (p < endrank 1 x)%nat -> (q < endrank 1 x)%nat ->
  sum_idx (shape x) (fun idx => rconj (chainM (slices x idx) 0%nat p) * chainM (slices x idx) 0%nat q) = delta p q.
Proof.
  intros Hch Hall Hp Hq. rewrite <- (gram_left_orth x 1 Hch Hall p q Hp Hq). unfold gram.
  apply sum_idx_ext. intros idx _ _. unfold mmul, adj. rewrite sum_n_1. reflexivity.
Qed.

(* the interface matrix is an isometry: <L v, L w> = <v, w> *)
Lemma interface_isometry (x : tt R) (v w : nat -> R) : chained 1 x -> Forall left_orth x ->
  sum_idx (shape x) (fun idx => sum_n (endrank 1 x) (fun p => chainM (slices x idx) 0%nat p * v p) *
                                rconj (sum_n (endrank 1 x) (fun q => chainM (slices x idx) 0%nat q * w q)))
  = sum_n (endrank 1 x) (fun p => v p * rconj (w p)).
Proof.
  intros Hch Hall. set (e := endrank 1 x).
  rewrite (sum_idx_ext (shape x) _ (fun idx => sum_n e (fun p => sum_n e (fun q =>
      (v p * rconj (w q)) * (rconj (chainM (slices x idx) 0%nat q) * chainM (slices x idx) 0%nat p))))).
  2:{ intros idx _ _. rewrite sum_n_conj. rewrite <- sum_n_scal_r. apply sum_n_ext. intros p _.
      rewrite <- sum_n_scal_l. apply sum_n_ext. intros q _. rewrite conj_mul. ring. }
  rewrite sum_idx_sum_n_swap. apply sum_n_ext. intros p Hp.
  rewrite sum_idx_sum_n_swap.
  rewrite (sum_n_ext e _ (fun q => delta p q * (v p * rconj (w q)))).
  2:{ intros q Hq. rewrite sum_idx_scal_l. rewrite (interface_orthonormal x q p Hch Hall Hq Hp).
      unfold delta. rewrite Nat.eqb_sym. ring. }
  rewrite sum_n_delta_l by exact Hp. reflexivity.
Qed.

Lemma lastk_slices (x : tt R) : forall r idx, length idx = length x -> lastk r (slices x idx) = endrank r x.
Proof. induction x as [|c t IH]; intros r [|i it] H; simpl in *; try discriminate; auto. Qed.

Lemma entry_snoc (pre : tt R) (c : core3 R) ip i : length ip = length pre -> r1 c = 1%nat ->
  entry (pre ++ [c]) (ip ++ [i]) = sum_n (endrank 1 pre) (fun p => chainM (slices pre ip) 0%nat p * e3 c p i 0%nat).
Proof.
  intros Hl H1. unfold entry. rewrite slices_snoc by exact Hl.
  rewrite (chainM_app _ _ 1%nat) by lia. rewrite lastk_slices by exact Hl. unfold mmul.
  apply sum_n_ext. intros p _. rewrite chainM_single by lia. reflexivity.
Qed.

(* the squared norm of a train whose cores but the last are left-orthogonal is the squared norm of its last core:
   what norm() returns after its QR sweep, and why the spectrum of the last core of an orthogonalised train is the spectrum of the tensor *)
Theorem norm2_last_core (pre : tt R) (c : core3 R) : chained 1 pre -> Forall left_orth pre -> r1 c = 1%nat ->
  sum_idx (shape (pre ++ [c])) (fun idx => entry (pre ++ [c]) idx * rconj (entry (pre ++ [c]) idx))
  = sum_n (nn c) (fun i => sum_n (endrank 1 pre) (fun p => e3 c p i 0%nat * rconj (e3 c p i 0%nat))).
Proof.
  intros Hch Hall H1.
  unfold shape. rewrite map_app. fold (shape pre). cbn [map]. rewrite sum_idx_app.
  rewrite (sum_idx_ext (shape pre) _ (fun ip => sum_n (nn c) (fun i =>
      sum_n (endrank 1 pre) (fun p => chainM (slices pre ip) 0%nat p * e3 c p i 0%nat) *
      rconj (sum_n (endrank 1 pre) (fun q => chainM (slices pre ip) 0%nat q * e3 c q i 0%nat))))).
  2:{ intros ip Hl _. cbn [sum_idx]. apply sum_n_ext. intros i _. unfold shape in Hl. rewrite map_length in Hl.
      rewrite !entry_snoc by assumption. reflexivity. }
  rewrite sum_idx_sum_n_swap. apply sum_n_ext. intros i _.
  apply (interface_isometry pre (fun p => e3 c p i 0%nat) (fun p => e3 c p i 0%nat) Hch Hall).
Qed.

End OrthP.
