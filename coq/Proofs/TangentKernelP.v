(* The projection of torchtt/manifold.py in KERNEL FORM (C16): the entries of proj_model l r z (Model/Tangent.v, tied exactly to the code after the two QR
   sweeps) are  sum_k [ (A_(k-1) (x) I - A_k) (x) B_k ] z  +  A_(d-2) z   applied to the DENSE entries of z, where A_m(i, j) = sum_a L_(<=m)(i)[a] L_(<=m)(j)[a] is
   the kernel of the left interface of l and B_k(i, j) = sum_p R_(>k)(i)[p] R_(>k)(j)[p] that of the right interface of r.  No orthogonality is used: the identity
   is pure algebra of the einsum recursion - it is the bridge between the code and the operator algebra of ProjAlgP / ProjFullP (formerly measured). *)
From Coq Require Import List Arith Lia Ring Bool.
From TT Require Import RingSig SumN Mat Dense Core CoreP Arith ArithP Reduce ReduceP BilinearP ReduceDimsP FrameP OrthP GaugeP Tangent TangentP.
Import ListNotations.

Section TangentKernelP.
Context {R : Type} {RO : RingOps R} {RL : RingLaws R}.
Add Ring Rr90 : Rth.
Open Scope R_scope.
Arguments chainM : simpl never.

(* (X^T G Y)(a, s) *)
Definition tpm (ra rb : nat) (G X Y : mat R) (a s : nat) : R := sum_n ra (fun r => sum_n rb (fun t => X r a * G r t * Y t s)).

Lemma tpm_step ra rb ka kb n0 (G : mat R) (A B : nat -> mat R) (X Y : mat R) a s :
  tpm ka kb (fun m n => sum_n n0 (fun i => tpm ra rb G (A i) (B i) m n)) X Y a s
  = sum_n n0 (fun i => tpm ra rb G (mmul ka (A i) X) (mmul kb (B i) Y) a s).
Proof.
  set (g := fun (I J : list nat) =>
     let m := nth 0 I 0%nat in let n := nth 1 I 0%nat in
     let i := nth 0 J 0%nat in let r := nth 1 J 0%nat in let t := nth 2 J 0%nat in
     A i r m * X m a * G r t * (B i t n * Y n s)).
  transitivity (sum_idx [ka; kb] (fun I => sum_idx [n0; ra; rb] (fun J => g I J))).
  { unfold tpm. cbn [sum_idx nth]. apply sum_n_ext. intros m _. apply sum_n_ext. intros n _.
    rewrite <- sum_n_scal_l, <- sum_n_scal_r. apply sum_n_ext. intros i _.
    rewrite <- sum_n_scal_l, <- sum_n_scal_r. apply sum_n_ext. intros r _.
    rewrite <- sum_n_scal_l, <- sum_n_scal_r. apply sum_n_ext. intros t _. unfold g. cbn [nth]. ring. }
  rewrite sum_idx_swap. cbn [sum_idx nth]. apply sum_n_ext. intros i _. unfold tpm.
  apply sum_n_ext. intros r _. apply sum_n_ext. intros t _. unfold mmul.
  rewrite (sum_n_ext ka _ (fun m => A i r m * X m a * (G r t * sum_n kb (fun n => B i t n * Y n s)))).
  - rewrite sum_n_scal_r. ring.
  - intros m _. rewrite <- sum_n_scal_l, <- sum_n_scal_l. apply sum_n_ext. intros n _. unfold g. cbn [nth]. ring.
Qed.

Definition sl (c : core3 R) (i : nat) : mat R := fun p q => e3 c p i q.

Lemma pl_step_tpm (P : mat R) (l z : core3 R) m n : nn z = nn l ->
  pl_step P l z m n = sum_n (nn l) (fun i => tpm (r0 l) (r0 z) P (sl l i) (sl z i) m n).
Proof.
  intros _. unfold pl_step, tpm, sl.
  rewrite (sum_n_ext (r0 l) _ (fun r => sum_n (nn l) (fun i => sum_n (r0 z) (fun s => e3 l r i m * P r s * e3 z s i n)))).
  - rewrite sum_n_swap. reflexivity.
  - intros r _. rewrite sum_n_swap. apply sum_n_ext. intros s _. apply sum_n_ext. intros i _. ring.
Qed.

(* Pleft after a prefix: plF l z P = sum_j X_j^T P Y_j over the index box of the prefix *)
Fixpoint plF (l z : tt R) (P : mat R) : mat R :=
  match l, z with lc :: lt, zc :: zt => plF lt zt (pl_step P lc zc) | _, _ => P end.

Lemma tpm_ext ra rb G G' X X' Y Y' a s : (forall r t, (r < ra)%nat -> (t < rb)%nat -> G r t = G' r t) ->
  (forall r, (r < ra)%nat -> X r a = X' r a) -> (forall t, (t < rb)%nat -> Y t s = Y' t s) -> tpm ra rb G X Y a s = tpm ra rb G' X' Y' a s.
Proof. intros HG HX HY. unfold tpm. apply sum_n_ext. intros r Hr. apply sum_n_ext. intros t Ht. rewrite HG, HX, HY by assumption. reflexivity. Qed.

Lemma plF_ext (l : tt R) : forall (z : tt R) P P', (forall a b, P a b = P' a b) -> forall a b, plF l z P a b = plF l z P' a b.
Proof.
  induction l as [|lc lt IH]; intros [|zc zt] P P' H a b; cbn [plF]; try apply H.
  apply IH. intros. unfold pl_step. do 3 (apply sum_n_ext; intros ? _). rewrite H. reflexivity.
Qed.

Lemma plF_spec (l : tt R) : forall (z : tt R) P ra rz a s, map nn z = map nn l -> linked ra l -> linked rz z ->
  (a < endrank ra l)%nat -> (s < endrank rz z)%nat ->
  plF l z P a s = sum_idx (shape l) (fun j => tpm ra rz P (chainM (slices l j)) (chainM (slices z j)) a s).
Proof.
  induction l as [|lc lt IH]; intros [|zc zt] P ra rz a s Hn Hl Hz Ha Hs; simpl in Hn; try discriminate.
  - cbn [plF shape map sum_idx slices endrank] in *. unfold tpm.
    change (chainM (@nil (Mat.sl R))) with (fun p q : nat => @delta R RO p q).
    rewrite (sum_n_ext ra _ (fun r => delta a r * P r s)).
    + rewrite sum_n_delta_l by exact Ha. reflexivity.
    + intros r _. rewrite (sum_n_ext rz _ (fun t => delta s t * (delta r a * P r t))).
      * rewrite sum_n_delta_l by exact Hs. unfold delta. rewrite (Nat.eqb_sym r a). reflexivity.
      * intros t _. unfold delta. rewrite (Nat.eqb_sym t s). ring.
  - injection Hn as Hn0 Hn. destruct Hl as [Hl0 Hl]. destruct Hz as [Hz0 Hz]. cbn [endrank] in Ha, Hs.
    cbn [plF shape map sum_idx]. fold (shape lt).
    rewrite (IH zt _ (r1 lc) (r1 zc) a s Hn Hl Hz Ha Hs).
    rewrite (sum_idx_ext (shape lt) _ (fun jt => sum_n (nn lc) (fun i =>
       tpm ra rz P (mmul (r1 lc) (sl lc i) (chainM (slices lt jt))) (mmul (r1 zc) (sl zc i) (chainM (slices zt jt))) a s))).
    + rewrite sum_idx_sum_n_swap. apply sum_n_ext. intros i _. apply sum_idx_ext. intros jt _ _. reflexivity.
    + intros jt _ _. rewrite <- tpm_step. apply tpm_ext; try reflexivity.
      intros r t _ _. rewrite (pl_step_tpm P lc zc r t Hn0). rewrite Hl0, Hz0. reflexivity.
Qed.

(* Pright from a suffix: pr_suffix r z = sum_j R(j) (x) Z(j) over the index box of the suffix (both trains end with rank 1) *)
Lemma prB_spec (r : tt R) : forall (z : tt R) ra rz p S, map nn z = map nn r -> chained ra r -> chained rz z -> (p < ra)%nat -> (S < rz)%nat ->
  pr_suffix r z p S = sum_idx (shape r) (fun j => chainM (slices r j) p 0%nat * chainM (slices z j) S 0%nat).
Proof.
  induction r as [|rc rt IH]; intros [|zc zt] ra rz p S Hn Hr Hz Hp HS; simpl in Hn; try discriminate.
  - cbn [pr_suffix shape map sum_idx slices chained] in *. subst ra rz. replace p with 0%nat by lia. replace S with 0%nat by lia.
    unfold ones11. change (chainM (@nil (Mat.sl R)) 0%nat 0%nat) with (@delta R RO 0 0). unfold delta. simpl. ring.
  - injection Hn as Hn0 Hn. destruct Hr as [Hr0 Hr]. destruct Hz as [Hz0 Hz].
    cbn [pr_suffix shape map sum_idx slices]. fold (shape rt). unfold pr_step.
    transitivity (sum_n (r1 rc) (fun p' => sum_n (r1 zc) (fun q => sum_n (nn rc) (fun i => sum_idx (shape rt) (fun jt =>
       e3 rc p i p' * chainM (slices rt jt) p' 0%nat * (e3 zc S i q * chainM (slices zt jt) q 0%nat)))))).
    { apply sum_n_ext. intros p' Hp'. apply sum_n_ext. intros q Hq. apply sum_n_ext. intros i _.
      rewrite (IH zt (r1 rc) (r1 zc) p' q Hn Hr Hz Hp' Hq).
      rewrite <- sum_idx_scal_r, <- sum_idx_scal_r. apply sum_idx_ext. intros jt _ _. ring. }
    transitivity (sum_n (nn rc) (fun i => sum_idx (shape rt) (fun jt => sum_n (r1 rc) (fun p' => sum_n (r1 zc) (fun q =>
       e3 rc p i p' * chainM (slices rt jt) p' 0%nat * (e3 zc S i q * chainM (slices zt jt) q 0%nat)))))).
    { rewrite (sum_n_ext (r1 rc) _ (fun p' => sum_n (nn rc) (fun i => sum_n (r1 zc) (fun q => sum_idx (shape rt) (fun jt =>
         e3 rc p i p' * chainM (slices rt jt) p' 0%nat * (e3 zc S i q * chainM (slices zt jt) q 0%nat)))))) by (intros; apply sum_n_swap).
      rewrite sum_n_swap. apply sum_n_ext. intros i _.
      rewrite (sum_n_ext (r1 rc) _ (fun p' => sum_idx (shape rt) (fun jt => sum_n (r1 zc) (fun q =>
         e3 rc p i p' * chainM (slices rt jt) p' 0%nat * (e3 zc S i q * chainM (slices zt jt) q 0%nat))))) by (intros; symmetry; apply sum_idx_sum_n_swap).
      symmetry. apply sum_idx_sum_n_swap. }
    apply sum_n_ext. intros i _. apply sum_idx_ext. intros jt _ _.
    rewrite !chainM_cons. rewrite <- sum_n_scal_r. apply sum_n_ext. intros p' _. rewrite <- sum_n_scal_l. reflexivity.
Qed.

Lemma plF_app (l1 : tt R) : forall (z1 l2 z2 : tt R) P, length z1 = length l1 -> plF (l1 ++ l2) (z1 ++ z2) P = plF l2 z2 (plF l1 z1 P).
Proof. induction l1 as [|a t IH]; intros [|b zt] l2 z2 P H; simpl in H; try discriminate; [reflexivity|]. cbn [app plF]. apply IH. lia. Qed.

(* Pleft after a prefix that starts at the boundary: the Gram-type sum of the two interface vectors *)
Lemma plF_ones (l z : tt R) a s : map nn z = map nn l -> linked 1 l -> linked 1 z -> (a < endrank 1 l)%nat -> (s < endrank 1 z)%nat ->
  plF l z ones11 a s = sum_idx (shape l) (fun j => chainM (slices l j) 0%nat a * chainM (slices z j) 0%nat s).
Proof.
  intros Hn Hl Hz Ha Hs. rewrite (plF_spec l z ones11 1%nat 1%nat a s Hn Hl Hz Ha Hs).
  apply sum_idx_ext. intros j _ _. unfold tpm, ones11. rewrite !sum_n_1. ring.
Qed.

(* the two kernels: left interface of a prefix, right interface of a suffix (bilinear: the code does not conjugate) *)
Definition KA (x : tt R) (i j : list nat) : R := sum_n (endrank 1 x) (fun a => chainM (slices x i) 0%nat a * chainM (slices x j) 0%nat a).
Definition KB (ra : nat) (x : tt R) (i j : list nat) : R := sum_n ra (fun p => chainM (slices x i) p 0%nat * chainM (slices x j) p 0%nat).

(* E1 / E3: contracting the left interface at i with Pleft gives the kernel applied to the interface of z *)
Lemma left_extract (l z : tt R) i s : map nn z = map nn l -> linked 1 l -> linked 1 z -> (s < endrank 1 z)%nat ->
  sum_n (endrank 1 l) (fun a => chainM (slices l i) 0%nat a * plF l z ones11 a s)
  = sum_idx (shape l) (fun j => KA l i j * chainM (slices z j) 0%nat s).
Proof.
  intros Hn Hl Hz Hs.
  rewrite (sum_n_ext (endrank 1 l) _ (fun a => sum_idx (shape l) (fun j => chainM (slices l i) 0%nat a * chainM (slices l j) 0%nat a * chainM (slices z j) 0%nat s))).
  - rewrite <- sum_idx_sum_n_swap. apply sum_idx_ext. intros j _ _. unfold KA. rewrite <- sum_n_scal_r. reflexivity.
  - intros a Ha. rewrite (plF_ones l z a s Hn Hl Hz Ha Hs). rewrite <- sum_idx_scal_l. apply sum_idx_ext. intros j _ _. ring.
Qed.
(* E2: contracting the right interface at i with Pright *)
Lemma right_extract (r z : tt R) ra rz i S : map nn z = map nn r -> chained ra r -> chained rz z -> (S < rz)%nat ->
  sum_n ra (fun p => chainM (slices r i) p 0%nat * pr_suffix r z p S)
  = sum_idx (shape r) (fun j => KB ra r i j * chainM (slices z j) S 0%nat).
Proof.
  intros Hn Hr Hz HS.
  rewrite (sum_n_ext ra _ (fun p => sum_idx (shape r) (fun j => chainM (slices r i) p 0%nat * chainM (slices r j) p 0%nat * chainM (slices z j) S 0%nat))).
  - rewrite <- sum_idx_sum_n_swap. apply sum_idx_ext. intros j _ _. unfold KB. rewrite <- sum_n_scal_r. reflexivity.
  - intros p Hp. rewrite (prB_spec r z ra rz p S Hn Hr Hz Hp HS). rewrite <- sum_idx_scal_l. apply sum_idx_ext. intros j _ _. ring.
Qed.

(* chain of a prefix extended by one core *)
Lemma chain_snoc_core (pre : tt R) (c : core3 R) ip i q : length ip = length pre -> (q < r1 c)%nat ->
  chainM (slices (pre ++ [c]) (ip ++ [i])) 0%nat q = sum_n (endrank 1 pre) (fun a => chainM (slices pre ip) 0%nat a * e3 c a i q).
Proof.
  intros Hl Hq. rewrite slices_app2 by exact Hl. cbn [slices].
  rewrite (chainM_snoc (slices pre ip) 1%nat (r1 c) (fun a b => e3 c a i b) 0%nat q) by (auto; lia).
  rewrite lastk_slices by exact Hl. reflexivity.
Qed.
(* entry of a train split into two parts *)
Lemma entry_app (x1 x2 : tt R) i1 i2 : length i1 = length x1 ->
  entry (x1 ++ x2) (i1 ++ i2) = sum_n (endrank 1 x1) (fun S => chainM (slices x1 i1) 0%nat S * chainM (slices x2 i2) S 0%nat).
Proof.
  intros Hl. unfold entry. rewrite slices_app2 by exact Hl. rewrite (chainM_app _ _ 1%nat) by lia. rewrite lastk_slices by exact Hl. reflexivity.
Qed.

Section Position.
Variables (lpre zpre rpost zpost : tt R) (lk zk : core3 R) (ipre ipost : list nat) (ik : nat).
Hypothesis Hn1 : map nn zpre = map nn lpre.
Hypothesis Hnk : nn zk = nn lk.
Hypothesis Hn2 : map nn zpost = map nn rpost.
Hypothesis Hl : linked 1 lpre.
Hypothesis Hz : linked 1 zpre.
Hypothesis Hlk : r0 lk = endrank 1 lpre.
Hypothesis Hzk : r0 zk = endrank 1 zpre.
Hypothesis Hr : chained (r1 lk) rpost.
Hypothesis Hzp : chained (r1 zk) zpost.
Hypothesis Hip : length ipre = length lpre.

Let PL := plF lpre zpre ones11.
Let Rm := pr_suffix rpost zpost.
Let La := fun a => chainM (slices lpre ipre) 0%nat a.
Let Rp := fun p => chainM (slices rpost ipost) p 0%nat.
Let U := fun a S => sum_n (r0 zk) (fun s => PL a s * e3 zk s ik S).
Let V := fun a S => sum_n (r1 lk) (fun q => e3 lk a ik q * pl_step PL lk zk q S).

(* the term of position k, regrouped: sum over the right rank S of z_k of [left part] * [right part] *)
Lemma term_regroup :
  sum_n (r0 lk) (fun a => sum_n (r1 lk) (fun p => La a * e3 (delta_mid PL lk zk Rm) a ik p * Rp p))
  = sum_n (r1 zk) (fun S => (sum_n (r0 lk) (fun a => La a * U a S) - sum_n (r0 lk) (fun a => La a * V a S)) * sum_n (r1 lk) (fun p => Rp p * Rm p S)).
Proof.
  cbn [delta_mid e3]. fold PL. fold (U) (V).
  transitivity (sum_n (r0 lk) (fun a => sum_n (r1 lk) (fun p => sum_n (r1 zk) (fun S => La a * (U a S - V a S) * (Rp p * Rm p S))))).
  { apply sum_n_ext. intros a _. apply sum_n_ext. intros p _.
    rewrite <- sum_n_scal_l, <- sum_n_scal_r. apply sum_n_ext. intros S _. unfold U, V. ring. }
  transitivity (sum_n (r1 zk) (fun S => sum_n (r0 lk) (fun a => sum_n (r1 lk) (fun p => La a * (U a S - V a S) * (Rp p * Rm p S))))).
  { rewrite (sum_n_ext (r0 lk) _ (fun a => sum_n (r1 zk) (fun S => sum_n (r1 lk) (fun p => La a * (U a S - V a S) * (Rp p * Rm p S)))))
      by (intros; apply sum_n_swap).
    apply sum_n_swap. }
  apply sum_n_ext. intros S _.
  rewrite <- sum_n_sub.
  rewrite <- sum_n_scal_r. apply sum_n_ext. intros a _. rewrite <- sum_n_scal_l. apply sum_n_ext. intros p _. ring.
Qed.

Lemma left_U S : sum_n (r0 lk) (fun a => La a * U a S)
  = sum_idx (shape lpre) (fun j => KA lpre ipre j * sum_n (r0 zk) (fun s => chainM (slices zpre j) 0%nat s * e3 zk s ik S)).
Proof.
  unfold U.
  transitivity (sum_n (r0 zk) (fun s => sum_n (r0 lk) (fun a => La a * PL a s) * e3 zk s ik S)).
  { rewrite (sum_n_ext (r0 lk) _ (fun a => sum_n (r0 zk) (fun s => La a * PL a s * e3 zk s ik S))).
    - rewrite sum_n_swap. apply sum_n_ext. intros s _. rewrite sum_n_scal_r. reflexivity.
    - intros a _. rewrite <- sum_n_scal_l. apply sum_n_ext. intros s _. ring. }
  rewrite (sum_n_ext (r0 zk) _ (fun s => sum_idx (shape lpre) (fun j => KA lpre ipre j * chainM (slices zpre j) 0%nat s * e3 zk s ik S))).
  - rewrite <- sum_idx_sum_n_swap. apply sum_idx_ext. intros j _ _. rewrite <- sum_n_scal_l. apply sum_n_ext. intros s _. ring.
  - intros s Hs. rewrite Hlk. unfold La, PL. rewrite (left_extract lpre zpre ipre s Hn1 Hl Hz) by (rewrite <- Hzk; exact Hs).
    rewrite <- sum_idx_scal_r. reflexivity.
Qed.

Lemma ext_shapes : map nn (zpre ++ [zk]) = map nn (lpre ++ [lk]).
Proof. rewrite !map_app. cbn [map]. rewrite Hn1, Hnk. reflexivity. Qed.
Lemma ext_linked_l : linked 1 (lpre ++ [lk]).
Proof. apply linked_app; [exact Hl|]. cbn [linked]. split; [exact Hlk|exact I]. Qed.
Lemma ext_linked_z : linked 1 (zpre ++ [zk]).
Proof. apply linked_app; [exact Hz|]. cbn [linked]. split; [exact Hzk|exact I]. Qed.

Lemma left_V S : (S < r1 zk)%nat -> sum_n (r0 lk) (fun a => La a * V a S)
  = sum_idx (shape (lpre ++ [lk])) (fun j => KA (lpre ++ [lk]) (ipre ++ [ik]) j * chainM (slices (zpre ++ [zk]) j) 0%nat S).
Proof.
  intros HS. unfold V.
  assert (HG : forall q S0, pl_step PL lk zk q S0 = plF (lpre ++ [lk]) (zpre ++ [zk]) ones11 q S0).
  { intros. unfold PL. rewrite plF_app by (apply (f_equal (@length nat)) in Hn1; rewrite !map_length in Hn1; exact Hn1). reflexivity. }
  transitivity (sum_n (r1 lk) (fun q => chainM (slices (lpre ++ [lk]) (ipre ++ [ik])) 0%nat q * plF (lpre ++ [lk]) (zpre ++ [zk]) ones11 q S)).
  { rewrite (sum_n_ext (r0 lk) _ (fun a => sum_n (r1 lk) (fun q => La a * e3 lk a ik q * pl_step PL lk zk q S))).
    - rewrite sum_n_swap. apply sum_n_ext. intros q Hq. rewrite (chain_snoc_core lpre lk ipre ik q Hip Hq).
      rewrite <- Hlk. rewrite sum_n_scal_r. rewrite HG. reflexivity.
    - intros a _. rewrite <- sum_n_scal_l. apply sum_n_ext. intros q _. ring. }
  replace (r1 lk) with (endrank 1 (lpre ++ [lk])) by (rewrite endrank_app; reflexivity).
  apply (left_extract (lpre ++ [lk]) (zpre ++ [zk]) (ipre ++ [ik]) S ext_shapes ext_linked_l ext_linked_z).
  rewrite endrank_app. exact HS.
Qed.

Lemma right_R S : (S < r1 zk)%nat -> sum_n (r1 lk) (fun p => Rp p * Rm p S)
  = sum_idx (shape rpost) (fun j => KB (r1 lk) rpost ipost j * chainM (slices zpost j) S 0%nat).
Proof. intros HS. unfold Rp, Rm. apply (right_extract rpost zpost (r1 lk) (r1 zk) ipost S Hn2 Hr Hzp HS). Qed.

Lemma prod_sums ns1 ns2 (f : list nat -> R) (g : list nat -> R) :
  sum_idx ns1 f * sum_idx ns2 g = sum_idx ns1 (fun j1 => sum_idx ns2 (fun j2 => f j1 * g j2)).
Proof. rewrite <- sum_idx_scal_r. apply sum_idx_ext. intros j1 _ _. rewrite <- sum_idx_scal_l. reflexivity. Qed.

(* THE TERM OF POSITION k IN KERNEL FORM *)
Theorem term_mid_kernel :
  sum_n (r0 lk) (fun a => sum_n (r1 lk) (fun p => La a * e3 (delta_mid PL lk zk Rm) a ik p * Rp p))
  = sum_idx (shape lpre) (fun j1 => sum_idx (shape rpost) (fun j2 =>
      KA lpre ipre j1 * KB (r1 lk) rpost ipost j2 * entry (zpre ++ zk :: zpost) (j1 ++ ik :: j2)))
  - sum_idx (shape (lpre ++ [lk])) (fun j1 => sum_idx (shape rpost) (fun j2 =>
      KA (lpre ++ [lk]) (ipre ++ [ik]) j1 * KB (r1 lk) rpost ipost j2 * entry ((zpre ++ [zk]) ++ zpost) (j1 ++ j2))).
Proof.
  rewrite term_regroup.
  set (Y := fun S => sum_n (r1 lk) (fun p => Rp p * Rm p S)).
  transitivity (sum_n (r1 zk) (fun S => sum_n (r0 lk) (fun a => La a * U a S) * Y S) - sum_n (r1 zk) (fun S => sum_n (r0 lk) (fun a => La a * V a S) * Y S)).
  { rewrite <- sum_n_sub. apply sum_n_ext. intros S _. fold (Y S). ring. }
  assert (Lz : length zpre = length lpre) by (apply (f_equal (@length nat)) in Hn1; rewrite !map_length in Hn1; exact Hn1).
  f_equal.
  - (* first part *)
    rewrite (sum_n_ext (r1 zk) _ (fun S => sum_idx (shape lpre) (fun j1 => sum_idx (shape rpost) (fun j2 =>
        KA lpre ipre j1 * KB (r1 lk) rpost ipost j2 * (sum_n (r0 zk) (fun s => chainM (slices zpre j1) 0%nat s * e3 zk s ik S) * chainM (slices zpost j2) S 0%nat))))).
    2:{ intros S HS. unfold Y. rewrite left_U, (right_R S HS), prod_sums.
        apply sum_idx_ext. intros j1 _ _. apply sum_idx_ext. intros j2 _ _. ring. }
    rewrite <- sum_idx_sum_n_swap. apply sum_idx_ext. intros j1 Hl1 _.
    rewrite <- sum_idx_sum_n_swap. apply sum_idx_ext. intros j2 _ _.
    rewrite sum_n_scal_l. f_equal.
    unfold shape in Hl1. rewrite map_length in Hl1.
    rewrite (entry_middle zpre zpost zk j1 ik j2) by lia. rewrite <- Hzk.
    rewrite (sum_n_ext (r1 zk) _ (fun S => sum_n (r0 zk) (fun s => chainM (slices zpre j1) 0%nat s * (e3 zk s ik S * chainM (slices zpost j2) S 0%nat)))).
    + rewrite sum_n_swap. apply sum_n_ext. intros s _. rewrite sum_n_scal_l. reflexivity.
    + intros S _. rewrite <- sum_n_scal_r. apply sum_n_ext. intros s _. ring.
  - (* second part *)
    rewrite (sum_n_ext (r1 zk) _ (fun S => sum_idx (shape (lpre ++ [lk])) (fun j1 => sum_idx (shape rpost) (fun j2 =>
        KA (lpre ++ [lk]) (ipre ++ [ik]) j1 * KB (r1 lk) rpost ipost j2 * (chainM (slices (zpre ++ [zk]) j1) 0%nat S * chainM (slices zpost j2) S 0%nat))))).
    2:{ intros S HS. unfold Y. rewrite (left_V S HS), (right_R S HS), prod_sums.
        apply sum_idx_ext. intros j1 _ _. apply sum_idx_ext. intros j2 _ _. ring. }
    rewrite <- sum_idx_sum_n_swap. apply sum_idx_ext. intros j1 Hl1 _.
    rewrite <- sum_idx_sum_n_swap. apply sum_idx_ext. intros j2 _ _.
    rewrite sum_n_scal_l. f_equal.
    unfold shape in Hl1. rewrite map_length, app_length in Hl1. cbn [length] in Hl1.
    rewrite (entry_app (zpre ++ [zk]) zpost j1 j2) by (rewrite app_length; cbn [length]; lia).
    rewrite endrank_app. reflexivity.
Qed.

(* the last position: no gauge correction, no right interface *)
Theorem term_last_kernel : r1 zk = 1%nat ->
  sum_n (r0 lk) (fun a => La a * e3 (delta_last PL lk zk) a ik 0%nat)
  = sum_idx (shape lpre) (fun j1 => KA lpre ipre j1 * entry (zpre ++ [zk]) (j1 ++ [ik])).
Proof.
  intros H1. cbn [delta_last e3]. fold PL. change (fun a => La a * sum_n (r0 zk) (fun s => PL a s * e3 zk s ik 0%nat)) with (fun a => La a * U a 0%nat).
  rewrite left_U. apply sum_idx_ext. intros j1 Hl1 _. f_equal.
  unfold shape in Hl1. rewrite map_length in Hl1.
  assert (Lz : length zpre = length lpre) by (apply (f_equal (@length nat)) in Hn1; rewrite !map_length in Hn1; exact Hn1).
  rewrite (entry_snoc zpre zk j1 ik) by (auto; lia). rewrite <- Hzk. reflexivity.
Qed.

End Position.


(* ---- the deltas, position by position, and the terms of tangent_entry_sum ---- *)
Lemma chain_mid_expand (A B : list (Mat.sl R)) k (M : mat R) :
  chainM (A ++ (k, M) :: B) 0%nat 0%nat = sum_n (lastk 1 A) (fun a => sum_n k (fun p => chainM A 0%nat a * M a p * chainM B p 0%nat)).
Proof.
  rewrite (chainM_app A ((k, M) :: B) 1%nat) by lia. unfold mmul. apply sum_n_ext. intros a _.
  rewrite chainM_cons. rewrite <- sum_n_scal_l. apply sum_n_ext. intros p _. ring.
Qed.

Lemma deltas_nth (l : tt R) : forall (r z : tt R) L k, length r = length l -> length z = length l -> (k < length l)%nat ->
  nth k (deltas L l r z) dflt3 =
    if Nat.eqb (S k) (length l) then delta_last (plF (firstn k l) (firstn k z) L) (nth k l dflt3) (nth k z dflt3)
    else delta_mid (plF (firstn k l) (firstn k z) L) (nth k l dflt3) (nth k z dflt3) (pr_suffix (skipn (S k) r) (skipn (S k) z)).
Proof.
  induction l as [|lc lt IH]; intros r z L k Hr Hz Hk; [simpl in Hk; lia|].
  destruct r as [|rc rt]; [discriminate|]. destruct z as [|zc zt]; [discriminate|]. simpl in Hr, Hz.
  destruct lt as [|l2 lt'].
  - destruct zt; [|discriminate]. simpl in Hk. replace k with 0%nat by lia. reflexivity.
  - destruct zt as [|z2 zt']; [discriminate|]. destruct rt as [|r2 rt']; [discriminate|].
    destruct k as [|k].
    + reflexivity.
    + change (deltas L (lc :: l2 :: lt') (rc :: r2 :: rt') (zc :: z2 :: zt')) with
        (delta_mid L lc zc (pr_suffix (r2 :: rt') (z2 :: zt')) :: deltas (pl_step L lc zc) (l2 :: lt') (r2 :: rt') (z2 :: zt')).
      cbn [nth]. rewrite (IH (r2 :: rt') (z2 :: zt') (pl_step L lc zc) k) by (simpl in *; lia).
      cbn [length firstn skipn nth plF]. reflexivity.
Qed.

(* ---- list plumbing: a train cut at position k ---- *)
Lemma split_nth {A} (d0 : A) : forall (x : list A) k, (k < length x)%nat -> x = firstn k x ++ nth k x d0 :: skipn (S k) x.
Proof. induction x as [|a t IH]; intros [|k] H; simpl in *; try lia; [reflexivity|]. f_equal. apply IH. lia. Qed.
Lemma linked_firstn (x : tt R) : forall s k, linked s x -> linked s (firstn k x).
Proof. induction x as [|c t IH]; intros s [|k] H; cbn [firstn linked]; auto. destruct H as [H0 H]. split; [exact H0|apply IH; exact H]. Qed.
Lemma endrank_firstn_nth (x : tt R) : forall s k, linked s x -> (k < length x)%nat -> r0 (nth k x dflt3) = endrank s (firstn k x).
Proof.
  induction x as [|c t IH]; intros s [|k] H Hk; simpl in Hk; try lia.
  - destruct H as [H0 _]. exact H0.
  - destruct H as [_ H]. cbn [nth firstn endrank]. apply IH; [exact H|lia].
Qed.
Lemma chained_skipn (x : tt R) : forall s k, chained s x -> (k < length x)%nat -> chained (r1 (nth k x dflt3)) (skipn (S k) x).
Proof.
  induction x as [|c t IH]; intros s [|k] H Hk; simpl in Hk; try lia.
  - destruct H as [_ H]. exact H.
  - destruct H as [_ H]. cbn [nth skipn]. apply (IH (r1 c)); [exact H|lia].
Qed.
Lemma chained_linked' (x : tt R) : forall s, chained s x -> linked s x.
Proof. induction x as [|c t IH]; intros s H; cbn [linked]; [exact I|]. destruct H as [H0 H]. split; [exact H0|apply IH; exact H]. Qed.

(* the terms of the kernel form *)
Definition kterm (l r z : tt R) (idx : list nat) (k : nat) : R :=
  if Nat.eqb (S k) (length l) then
    sum_idx (shape (firstn k l)) (fun j1 => KA (firstn k l) (firstn k idx) j1 * entry z (j1 ++ [nth k idx 0%nat]))
  else
    sum_idx (shape (firstn k l)) (fun j1 => sum_idx (shape (skipn (S k) r)) (fun j2 =>
      KA (firstn k l) (firstn k idx) j1 * KB (r1 (nth k l dflt3)) (skipn (S k) r) (skipn (S k) idx) j2 * entry z (j1 ++ nth k idx 0%nat :: j2)))
    - sum_idx (shape (firstn (S k) l)) (fun j1 => sum_idx (shape (skipn (S k) r)) (fun j2 =>
      KA (firstn (S k) l) (firstn (S k) idx) j1 * KB (r1 (nth k l dflt3)) (skipn (S k) r) (skipn (S k) idx) j2 * entry z (j1 ++ j2))).

Lemma firstn_S_snoc {A} (d0 : A) : forall (x : list A) k, (k < length x)%nat -> firstn (S k) x = firstn k x ++ [nth k x d0].
Proof. induction x as [|a t IH]; intros [|k] H; simpl in *; try lia; [reflexivity|]. f_equal. apply IH. lia. Qed.

(* THE PROJECTION IN KERNEL FORM *)
Theorem proj_model_kernel (l r z : tt R) idx :
  length r = length l -> length z = length l -> length idx = length l -> (2 <= length l)%nat ->
  map nn z = map nn l -> map nn z = map nn r ->
  linked 1 l -> chained 1 z -> chained 1 r ->
  (forall k, (S k < length l)%nat -> chained (r1 (nth k l dflt3)) (skipn (S k) r)) ->
  tcompat l r (deltas ones11 l r z) ->
  entry (proj_model l r z) idx = sum_n (length l) (fun k => kterm l r z idx k).
Proof.
  intros Hr Hz Hi Hd Hnl Hnr Hl Hzc Hrc Hcut Hcomp.
  unfold proj_model. rewrite (tangent_entry_sum l r _ idx Hcomp Hi Hd).
  apply sum_n_ext. intros k Hk.
  unfold tterm. rewrite chain_mid_expand.
  rewrite lastk_slices by (rewrite !firstn_length; lia).
  rewrite (deltas_nth l r z ones11 k Hr Hz Hk).
  pose proof (chained_linked' z 1%nat Hzc) as Hzl.
  assert (Hn1 : map nn (firstn k z) = map nn (firstn k l)) by (rewrite <- !firstn_map, Hnl; reflexivity).
  assert (Hnk : nn (nth k z dflt3) = nn (nth k l dflt3)).
  { rewrite <- (map_nth nn z dflt3 k), <- (map_nth nn l dflt3 k), Hnl. reflexivity. }
  assert (Hlk : r0 (nth k l dflt3) = endrank 1 (firstn k l)) by (apply endrank_firstn_nth; [exact Hl|exact Hk]).
  assert (Hzk : r0 (nth k z dflt3) = endrank 1 (firstn k z)) by (apply endrank_firstn_nth; [exact Hzl|lia]).
  assert (Hip : length (firstn k idx) = length (firstn k l)) by (rewrite !firstn_length; lia).
  pose proof (linked_firstn l 1%nat k Hl) as Hl'. pose proof (linked_firstn z 1%nat k Hzl) as Hzl'.
  assert (Ez : z = firstn k z ++ nth k z dflt3 :: skipn (S k) z) by (apply split_nth; lia).
  unfold kterm. destruct (Nat.eqb (S k) (length l)) eqn:Ek.
  - (* last position *)
    apply Nat.eqb_eq in Ek.
    assert (Hsk : skipn (S k) r = []) by (apply skipn_all2; lia).
    assert (Hsi : skipn (S k) idx = []) by (apply skipn_all2; lia).
    assert (Hsz : skipn (S k) z = []) by (apply skipn_all2; lia).
    rewrite Hsk, Hsi. cbn [slices delta_last r1].
    assert (H1 : r1 (nth k z dflt3) = 1%nat).
    { pose proof (chained_skipn z 1%nat k Hzc ltac:(lia)) as Hc. rewrite Hsz in Hc. exact Hc. }
    rewrite H1.
    rewrite (sum_n_ext _ _ (fun a => chainM (slices (firstn k l) (firstn k idx)) 0%nat a * e3 (delta_last (plF (firstn k l) (firstn k z) ones11) (nth k l dflt3) (nth k z dflt3)) a (nth k idx 0%nat) 0%nat)).
    2:{ intros a _. rewrite sum_n_1. change (chainM (@nil (Mat.sl R)) 0%nat 0%nat) with (@delta R RO 0 0). unfold delta. cbn [Nat.eqb]. cbn [delta_last e3]. ring. }
    rewrite <- Hlk.
    rewrite (term_last_kernel (firstn k l) (firstn k z) (nth k l dflt3) (nth k z dflt3) (firstn k idx) (nth k idx 0%nat) Hn1 Hnk Hl' Hzl' Hlk Hzk Hip H1).
    apply sum_idx_ext. intros j1 _ _. f_equal. f_equal. rewrite Ez at 3. rewrite Hsz. reflexivity.
  - (* an interior position *)
    apply Nat.eqb_neq in Ek. assert (Hk' : (S k < length l)%nat) by lia.
    assert (Hn2 : map nn (skipn (S k) z) = map nn (skipn (S k) r)) by (rewrite <- !skipn_map, Hnr; reflexivity).
    pose proof (Hcut k Hk') as Hrp.
    pose proof (chained_skipn z 1%nat k Hzc ltac:(lia)) as Hzp.
    cbn [delta_mid r1]. rewrite <- Hlk.
    rewrite (term_mid_kernel (firstn k l) (firstn k z) (skipn (S k) r) (skipn (S k) z) (nth k l dflt3) (nth k z dflt3)
               (firstn k idx) (skipn (S k) idx) (nth k idx 0%nat) Hn1 Hnk Hn2 Hl' Hzl' Hlk Hzk Hrp Hzp Hip).
    rewrite <- (firstn_S_snoc dflt3 l k Hk), <- (firstn_S_snoc 0%nat idx k ltac:(lia)).
    f_equal.
    + apply sum_idx_ext. intros j1 _ _. apply sum_idx_ext. intros j2 _ _. rewrite <- Ez. reflexivity.
    + apply sum_idx_ext. intros j1 _ _. apply sum_idx_ext. intros j2 _ _. f_equal.
      rewrite <- app_assoc. cbn [app]. rewrite <- Ez. reflexivity.
Qed.

End TangentKernelP.
