(* C01: the TT tensor returned by the TT-SVD sweep (its cores are the reshaped kept factors and the final remainder) has exactly
   the dense value `approx` whose distance to the input the error theorems bound. *)
From Coq Require Import List Arith Lia Ring Bool.
From TT Require Import RingSig SumN Mat Core FrobP Sweep SweepP ReshapeV.
Import ListNotations.

Section Bridge.
Context {R : Type} {RO : RingOps R} {RL : RingLaws R}.
Add Ring Rr14b : Rth.
Open Scope R_scope.

Arguments chainM : simpl never.

Lemma chainM_cons' k A (t : list (sl R)) i j : chainM ((k, A) :: t) i j = sum_n k (fun l => A i l * chainM t l j).
Proof. reflexivity. Qed.

Definition prodn (l : list nat) : nat := fold_right Nat.mul 1%nat l.
Lemma flat_lt : forall ns idx, Forall2 lt idx ns -> (flat_pos ns idx < prodn ns)%nat.
Proof.
  induction ns as [|n nt IH]; intros idx H; inversion H; subst; cbn [flat_pos prodn fold_right]; [lia|].
  specialize (IH _ H4). fold (prodn nt) in *. nia.
Qed.
Lemma sq_prod : forall (ss : list (stage R)) s, stages_ok (s :: ss) -> last_q1 (s :: ss) -> sq s = prodn (map (@sn R) ss).
Proof.
  induction ss as [|s' rest IH]; intros s Hok Hl.
  - cbn in *. exact Hl.
  - destruct Hok as (_ & _ & (Hm & Hq) & Hok'). rewrite Hq. cbn [map prodn fold_right]. f_equal.
    apply IH; [exact Hok'|]. exact Hl.
Qed.

Lemma sweep_chain : forall (ss : list (stage R)) rprev ncur C i idx p,
  stages_ok ss -> last_q1 ss -> Forall2 lt idx (map (@sn R) ss) ->
  chainM (slices (sweep_cores rprev ncur ss C) (i :: idx)) p 0%nat =
    approx ss C (p * ncur + i)%nat (flat_pos (map (@sn R) ss) idx).
Proof.
  induction ss as [|s rest IH]; intros rprev ncur C i idx p Hok Hl HF.
  - inversion HF; subst. cbn [sweep_cores slices approx map flat_pos]. rewrite chainM_cons'. cbn [r1 e3]. rewrite sum_n_1.
    change (chainM (@nil (sl R)) 0%nat 0%nat) with (delta (R:=R) 0 0). unfold delta. cbn [Nat.eqb]. ring.
  - inversion HF as [|j n idx' ns Hj HF']; subst.
    assert (Hq : sq s = prodn (map (@sn R) rest)) by (apply sq_prod; assumption).
    destruct Hok as (Hn & Hqpos & Hdim & Hok').
    assert (Hl' : last_q1 rest) by (destruct rest; [exact I|exact Hl]).
    cbn [sweep_cores slices approx map]. rewrite chainM_cons'. cbn [r1 e3]. unfold mmul at 1.
    apply sum_n_ext. intros l _. f_equal.
    rewrite IH by assumption.
    pose proof (flat_lt _ _ HF') as Hlt. fold (prodn (map (@sn R) rest)) in *.
    unfold unreshape_rows. cbn [flat_pos]. fold (prodn (map (@sn R) rest)). rewrite <- Hq in *.
    replace ((j * sq s + flat_pos (map (@sn R) rest) idx') / sq s)%nat with j.
    2:{ rewrite Nat.div_add_l by lia. rewrite Nat.div_small by lia. lia. }
    replace ((j * sq s + flat_pos (map (@sn R) rest) idx') mod sq s)%nat with (flat_pos (map (@sn R) rest) idx').
    2:{ rewrite Nat.add_comm, Nat.mod_add by lia. rewrite Nat.mod_small; lia. }
    reflexivity.
Qed.

(* the dense value of the returned TT: entry (i_1, .., i_d) = approx at row i_1 and the row-major column (i_2, .., i_d) *)
Theorem sweep_cores_entry (ss : list (stage R)) n1 C i idx :
  stages_ok ss -> last_q1 ss -> Forall2 lt idx (map (@sn R) ss) ->
  entry (sweep_cores 1 n1 ss C) (i :: idx) = approx ss C i (flat_pos (map (@sn R) ss) idx).
Proof.
  intros Hok Hl HF. unfold entry. rewrite sweep_chain by assumption. rewrite Nat.mul_0_l. reflexivity.
Qed.

(* ranks and mode sizes of the returned cores *)
Lemma sweep_cores_shape : forall (ss : list (stage R)) rprev ncur C, shape (sweep_cores rprev ncur ss C) = ncur :: map (@sn R) ss.
Proof. induction ss as [|s rest IH]; intros; cbn [sweep_cores shape map nn]; [reflexivity|]. f_equal. apply IH. Qed.
Lemma sweep_cores_chained : forall (ss : list (stage R)) rprev ncur C, chained rprev (sweep_cores rprev ncur ss C).
Proof. induction ss as [|s rest IH]; intros; cbn [sweep_cores chained r0 r1]; [auto|]. split; [reflexivity|apply IH]. Qed.
Theorem sweep_cores_wf (ss : list (stage R)) n1 C : wf (sweep_cores 1 n1 ss C).
Proof. split; [destruct ss; discriminate|apply sweep_cores_chained]. Qed.
Theorem sweep_cores_ranks : forall (ss : list (stage R)) rprev ncur C, map (@r1 R) (sweep_cores rprev ncur ss C) = map (@sr R) ss ++ [1%nat].
Proof. induction ss as [|s rest IH]; intros; cbn [sweep_cores map r1 app]; [reflexivity|]. f_equal. apply IH. Qed.

End Bridge.
