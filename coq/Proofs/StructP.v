(* Proofs for Model/Struct.v (C09) and the per-mode remapping shared with slicing (C08). *)
From Coq Require Import List Arith Lia Ring Bool.
From TT Require Import RingSig SumN Mat Dense Core CoreP Arith ArithP MatOps MatOpsP Reduce ReduceP Struct.
Import ListNotations.

Section StructP.
Context {R : Type} {RO : RingOps R} {RL : RingLaws R}.
Add Ring Rr9 : Rth.
Open Scope R_scope.

Arguments chainM : simpl never.

Lemma chainM_zero_head k (t : list (sl R)) i j : chainM ((k, fun _ _ => 0) :: t) i j = 0.
Proof. rewrite chainM_cons. apply sum_n_zero'. intros; ring. Qed.

Lemma chainM_zero_tail k (A : mat R) (t : list (sl R)) i j :
  (forall l, (l < k)%nat -> chainM t l j = 0) -> chainM ((k, A) :: t) i j = 0.
Proof. intros H. rewrite chainM_cons. apply sum_n_zero'. intros l Hl. rewrite H by assumption. ring. Qed.

(* ---- per-mode remapping ---- *)
Lemma remaps_chain (fs : list modemap) : forall (x : tt R) idx p q,
  length x = length fs -> length idx = length fs ->
  chainM (slices (remaps fs x) idx) p q =
    match map_idx fs idx with Some idx' => chainM (slices x idx') p q | None => 0 end.
Proof.
  induction fs as [|[n f] ft IH]; intros [|c ct] [|i it] p q Hx Hi; simpl in Hx, Hi; try discriminate.
  - reflexivity.
  - cbn [remaps slices map_idx]. rewrite chainM_cons. cbn [r1 remap_core e3].
    destruct (f i) as [i'|] eqn:Ef.
    + rewrite (sum_n_ext _ _ (fun l => e3 c p i' l *
          match map_idx ft it with Some idx' => chainM (slices ct idx') l q | None => 0 end)).
      2:{ intros l _. rewrite IH by lia. reflexivity. }
      destruct (map_idx ft it) as [it'|].
      * cbn [slices]. rewrite chainM_cons. reflexivity.
      * apply sum_n_zero'. intros; ring.
    + apply sum_n_zero'. intros; ring.
Qed.

Theorem remaps_entry (fs : list modemap) (x : tt R) idx :
  length x = length fs -> length idx = length fs ->
  entry (remaps fs x) idx = match map_idx fs idx with Some idx' => entry x idx' | None => 0 end.
Proof. intros Hx Hi. unfold entry. rewrite remaps_chain by assumption. destruct (map_idx fs idx); reflexivity. Qed.

Lemma remaps_length (fs : list modemap) : forall x : tt R, length x = length fs -> length (remaps fs x) = length fs.
Proof. induction fs as [|[n f] ft IH]; intros [|c ct] H; simpl in *; try discriminate; auto. Qed.
Lemma remaps_shape (fs : list modemap) : forall x : tt R, length x = length fs -> shape (remaps fs x) = map fst fs.
Proof. induction fs as [|[n f] ft IH]; intros [|c ct] H; simpl in *; try discriminate; auto. rewrite IH by lia. reflexivity. Qed.
Lemma remaps_chained (fs : list modemap) : forall (x : tt R) r, length x = length fs -> chained r x -> chained r (remaps fs x).
Proof.
  induction fs as [|[n f] ft IH]; intros [|c ct] r H Hc; simpl in *; try discriminate; auto.
  destruct Hc as [H0 Hc]. split; auto.
Qed.
Lemma remaps_wf (fs : list modemap) (x : tt R) : length x = length fs -> wf x -> wf (remaps fs x).
Proof.
  intros H [Hn Hc]. split; [|apply remaps_chained; assumption].
  destruct x, fs as [|[n f] ft]; simpl in *; try discriminate; congruence.
Qed.

(* ---- conj ---- *)
Lemma conj_slices (x : tt R) : forall idx, slices (conj_tt x) idx = conjL (slices x idx).
Proof. induction x as [|c ct IH]; intros [|i it]; simpl; auto. rewrite IH. reflexivity. Qed.
Theorem conj_full (x : tt R) idx : entry (conj_tt x) idx = rconj (entry x idx).
Proof. unfold entry. rewrite conj_slices. apply chainM_conj. Qed.
Lemma conj_slices4 (x : ttm R) : forall is_ js, slices4 (conj_ttm x) is_ js = conjL (slices4 x is_ js).
Proof. induction x as [|c ct IH]; intros [|i it] [|j jt]; simpl; auto. rewrite IH. reflexivity. Qed.
Theorem conj_ttm_full (x : ttm R) is_ js : entry4 (conj_ttm x) is_ js = rconj (entry4 x is_ js).
Proof. unfold entry4. rewrite conj_slices4. apply chainM_conj. Qed.

(* ---- to_ttm ---- *)
Lemma to_ttm_slices (x : tt R) : forall is_ js, length js = length is_ ->
  slices4 (to_ttm x) is_ js = slices x is_.
Proof. induction x as [|c ct IH]; intros [|i it] [|j jt] H; simpl in *; try discriminate; auto. rewrite IH by lia. reflexivity. Qed.
Theorem to_ttm_full (x : tt R) is_ js : length js = length is_ -> entry4 (to_ttm x) is_ js = entry x is_.
Proof. intros H. unfold entry4, entry. rewrite to_ttm_slices by assumption. reflexivity. Qed.
Theorem to_ttm_shapes (x : tt R) : shapeM (to_ttm x) = shape x /\ shapeN (to_ttm x) = map (fun _ => 1%nat) x.
Proof. unfold shapeM, shapeN, shape, to_ttm. rewrite !map_map. split; reflexivity. Qed.

(* ---- diag ---- *)
Theorem diag_ttm_full (A : ttm R) : forall is_, entry (diag_ttm A) is_ = entry4 A is_ is_.
Proof.
  intros is_. unfold entry, entry4. f_equal.
  revert is_. induction A as [|c ct IH]; intros [|i it]; simpl; auto. rewrite IH. reflexivity.
Qed.

Fixpoint deltas (is_ js : list nat) : R :=
  match is_, js with i :: it, j :: jt => delta i j * deltas it jt | _, _ => 1 end.

Lemma diag_tt_chain (x : tt R) : forall is_ js p q, length is_ = length x -> length js = length x ->
  chainM (slices4 (diag_tt x) is_ js) p q = deltas is_ js * chainM (slices x is_) p q.
Proof.
  induction x as [|c ct IH]; intros [|i it] [|j jt] p q Hi Hj; simpl in Hi, Hj; try discriminate.
  - cbn [diag_tt map slices4 slices deltas]. ring.
  - cbn [diag_tt map slices4 slices deltas]. fold (diag_tt ct). rewrite !chainM_cons. cbn [q1 diag_core e4].
    rewrite <- sum_n_scal_l. apply sum_n_ext. intros l _. rewrite IH by lia. ring.
Qed.
Theorem diag_tt_full (x : tt R) is_ js : length is_ = length x -> length js = length x ->
  entry4 (diag_tt x) is_ js = entry x is_ * deltas is_ js.
Proof. intros Hi Hj. unfold entry4, entry. rewrite diag_tt_chain by assumption. ring. Qed.

(* ---- mprod ---- *)
Lemma mprod1_chain (x : tt R) : forall k l M idx p q, (k < length x)%nat -> length idx = length x ->
  chainM (slices (mprod1 x k l M) idx) p q =
    sum_n (nth k (shape x) 0%nat) (fun j => M (nth k idx 0%nat) j * chainM (slices x (upd k j idx)) p q).
Proof.
  induction x as [|c ct IH]; intros k l M [|i it] p q Hk Hi; simpl in Hk, Hi; try lia; try discriminate.
  destruct k as [|k'].
  - cbn [mprod1 slices shape map nth upd]. rewrite chainM_cons. cbn [r1 mprod_core e3].
    rewrite (sum_n_ext _ _ (fun a => sum_n (nn c) (fun j => M i j * (e3 c p j a * chainM (slices ct it) a q)))).
    2:{ intros a _. rewrite <- sum_n_scal_r. apply sum_n_ext. intros j _. ring. }
    rewrite sum_n_swap. apply sum_n_ext. intros j _. rewrite chainM_cons.
    rewrite sum_n_scal_l. reflexivity.
  - cbn [mprod1 slices shape map nth upd]. rewrite chainM_cons.
    rewrite (sum_n_ext _ _ (fun a => sum_n (nth k' (shape ct) 0%nat) (fun j =>
               M (nth k' it 0%nat) j * (e3 c p i a * chainM (slices ct (upd k' j it)) a q)))).
    2:{ intros a _. rewrite IH by lia. rewrite <- sum_n_scal_l. apply sum_n_ext. intros j _. ring. }
    rewrite sum_n_swap. apply sum_n_ext. intros j _. rewrite chainM_cons.
    rewrite sum_n_scal_l. reflexivity.
Qed.
Theorem mprod1_full (x : tt R) k l M idx : (k < length x)%nat -> length idx = length x ->
  entry (mprod1 x k l M) idx =
    sum_n (nth k (shape x) 0%nat) (fun j => M (nth k idx 0%nat) j * entry x (upd k j idx)).
Proof. intros Hk Hi. unfold entry. apply mprod1_chain; assumption. Qed.
Lemma mprod1_length (x : tt R) : forall k l M, length (mprod1 x k l M) = length x.
Proof. induction x as [|c ct IH]; intros [|k] l M; simpl; auto. Qed.
Lemma mprod1_shape (x : tt R) : forall k l M, (k < length x)%nat -> shape (mprod1 x k l M) = upd k l (shape x).
Proof. induction x as [|c ct IH]; intros [|k] l M H; simpl in *; try lia; auto. f_equal. apply IH. lia. Qed.
Lemma mprod1_chained (x : tt R) : forall k l M r, chained r x -> chained r (mprod1 x k l M).
Proof. induction x as [|c ct IH]; intros [|k] l M r H; simpl in *; auto; destruct H; split; auto. Qed.

(* ---- rank-one helpers ---- *)
Lemma unit_chained (v : R) ns : chained 1 (map (fun n => mk3 1 n 1 (fun _ _ _ => v)) ns).
Proof. induction ns; simpl; auto. Qed.
Lemma ones_wf ns : ns <> [] -> wf (ones_tt (R:=R) ns).
Proof. intros H. split; [destruct ns; [congruence|discriminate]|apply unit_chained]. Qed.
Lemma zeros_wf ns : ns <> [] -> wf (zeros_tt (R:=R) ns).
Proof. intros H. split; [destruct ns; [congruence|discriminate]|apply unit_chained]. Qed.
Lemma ones_length ns : length (ones_tt (R:=R) ns) = length ns. Proof. apply map_length. Qed.
Lemma ones_shape ns : shape (ones_tt (R:=R) ns) = ns.
Proof. unfold shape, ones_tt. rewrite map_map. cbn [nn]. apply map_id. Qed.
Lemma shape_length (x : tt R) : length (shape x) = length x. Proof. apply map_length. Qed.
Lemma sub_wf (x y : tt R) : wf x -> wf y -> length y = length x -> wf (sub x y).
Proof. intros Hx Hy Hl. unfold sub. apply add_wf; auto. apply neg_first_wf; auto. rewrite neg_first_length; auto. Qed.
Lemma add_length (x y : tt R) : length y = length x -> length (add x y) = length x.
Proof. apply add_rec_length. Qed.
Lemma sub_length (x y : tt R) : length y = length x -> length (sub x y) = length x.
Proof. intros H. unfold sub. apply add_length. rewrite neg_first_length. assumption. Qed.
Lemma mul_scalar_wf (x : tt R) s : wf x -> wf (mul_scalar x s).
Proof.
  intros Hx. unfold mul_scalar. destruct (reqb s 0).
  - apply zeros_wf. destruct Hx as [Hn _]. destruct x; [congruence|discriminate].
  - apply scal_first_wf; assumption.
Qed.
Lemma mul_scalar_length (x : tt R) s : length (mul_scalar x s) = length x.
Proof.
  unfold mul_scalar. destruct (reqb s 0).
  - unfold zeros_tt. rewrite map_length. apply shape_length.
  - destruct x; reflexivity.
Qed.

(* ---- pad (tensors) ---- *)
Lemma pad_maps_length ns : forall pd, length pd = length ns -> length (pad_maps ns pd) = length ns.
Proof. induction ns as [|n nt IH]; intros [|[b a] pt] H; simpl in *; try discriminate; auto. Qed.
Lemma pad_maps_idx ns : forall pd idx, length pd = length ns -> length idx = length ns ->
  map_idx (pad_maps ns pd) idx = in_block ns pd idx.
Proof.
  induction ns as [|n nt IH]; intros [|[b a] pt] [|i it] Hp Hi; simpl in *; try discriminate; auto.
  rewrite IH by lia. destruct ((b <=? i)%nat && (i <? b + n)%nat); [|reflexivity].
  destruct (in_block nt pt it); reflexivity.
Qed.
Lemma pad_maps_shape ns : forall pd, length pd = length ns -> map fst (pad_maps ns pd) = pad_shape ns pd.
Proof. induction ns as [|n nt IH]; intros [|[b a] pt] H; simpl in *; try discriminate; auto. rewrite IH by lia. reflexivity. Qed.
Lemma fill_pads_length d padding : (length padding <= d)%nat -> length (fill_pads d padding) = d.
Proof. intros H. unfold fill_pads. rewrite app_length, repeat_length. lia. Qed.
Lemma in_block_length ns : forall pd idx i', in_block ns pd idx = Some i' -> length pd = length ns ->
  length idx = length ns -> length i' = length ns.
Proof.
  induction ns as [|n nt IH]; intros [|[b a] pt] [|i it] i' H Hp Hi; simpl in *; try discriminate.
  - inversion H. reflexivity.
  - destruct ((b <=? i)%nat && (i <? b + n)%nat); [|discriminate].
    destruct (in_block nt pt it) eqn:E; [|discriminate]. inversion H. simpl. f_equal. eapply IH; eauto.
Qed.

Theorem padz_full (x : tt R) pd idx : length pd = length x -> length idx = length x ->
  entry (padz x pd) idx = match in_block (shape x) pd idx with Some i' => entry x i' | None => 0 end.
Proof.
  intros Hp Hi. unfold padz. rewrite remaps_entry.
  - rewrite pad_maps_idx; rewrite ?shape_length; auto.
  - rewrite pad_maps_length; rewrite shape_length; auto.
  - rewrite pad_maps_length; rewrite shape_length; auto.
Qed.
Lemma padz_length (x : tt R) pd : length pd = length x -> length (padz x pd) = length x.
Proof. intros H. unfold padz. rewrite remaps_length; rewrite pad_maps_length; rewrite ?shape_length; auto. Qed.
Lemma padz_wf (x : tt R) pd : length pd = length x -> wf x -> wf (padz x pd).
Proof. intros H Hx. unfold padz. apply remaps_wf; auto. rewrite pad_maps_length; rewrite shape_length; auto. Qed.
Lemma padz_shape (x : tt R) pd : length pd = length x -> shape (padz x pd) = pad_shape (shape x) pd.
Proof.
  intros H. unfold padz. rewrite remaps_shape.
  - apply pad_maps_shape. rewrite shape_length. assumption.
  - rewrite pad_maps_length; rewrite shape_length; auto.
Qed.

(* the complement indicator: 0 inside the block, 1 outside - row 0 of the chain; row 1 ("already outside") is 1 *)
Lemma outside_cores_length ns : forall first pd, length pd = length ns -> length (outside_cores (R:=R) first ns pd) = length ns.
Proof. induction ns as [|n nt IH]; intros first [|[b a] pt] H; simpl in *; try discriminate; auto. Qed.
Lemma outside_cores_shape ns : forall first pd, length pd = length ns -> shape (outside_cores (R:=R) first ns pd) = pad_shape ns pd.
Proof.
  induction ns as [|n nt IH]; intros first [|[b a] pt] H; simpl in *; try discriminate; auto.
  f_equal. apply IH. lia.
Qed.
Lemma outside_cores_chained ns : forall (first : bool) pd, ns <> [] -> length pd = length ns ->
  chained (if first then 1 else 2)%nat (outside_cores (R:=R) first ns pd).
Proof.
  induction ns as [|n nt IH]; intros first [|[b a] pt] Hne H; simpl in H; try discriminate; [congruence|].
  cbn [outside_cores chained outside_core r0 r1]. split; [reflexivity|].
  destruct nt as [|n2 nt2].
  - destruct pt; [|discriminate]. simpl. reflexivity.
  - apply (IH false pt); [discriminate|lia].
Qed.
Lemma outside_wf ns pd : ns <> [] -> length pd = length ns -> wf (outside_tt (R:=R) ns pd).
Proof.
  intros Hne H. split.
  - unfold outside_tt. destruct ns as [|n nt]; [congruence|]. destruct pd as [|[b a] pt]; [discriminate|]. discriminate.
  - apply (outside_cores_chained ns true pd); assumption.
Qed.
Lemma outside_rows ns : forall first pd idx, ns <> [] -> length pd = length ns -> length idx = length ns ->
  chainM (slices (outside_cores (R:=R) first ns pd) idx) 0%nat 0%nat = (match in_block ns pd idx with Some _ => 0 | None => 1 end)
  /\ chainM (slices (outside_cores (R:=R) first ns pd) idx) 1%nat 0%nat = 1.
Proof.
  induction ns as [|n nt IH]; intros first [|[b a] pt] [|i it] Hne Hp Hi; simpl in Hp, Hi; try discriminate; [congruence|].
  destruct nt as [|n2 nt2].
  - destruct pt; [|discriminate]. destruct it; [|discriminate].
    cbn [outside_cores slices outside_core r1 e3 in_block].
    rewrite !chainM_single by lia. cbn [Nat.eqb].
    destruct ((b <=? i)%nat && (i <? b + n)%nat); split; reflexivity.
  - destruct (IH false pt it) as [H0 H1]; [discriminate|lia|lia|].
    change (outside_cores first (n :: n2 :: nt2) ((b, a) :: pt)) with (outside_core (R:=R) first false n b a :: outside_cores false (n2 :: nt2) pt).
    set (T := outside_cores false (n2 :: nt2) pt) in *.
    cbn [slices outside_core r1 e3].
    rewrite !chainM_cons. cbn [sum_n Nat.eqb].
    rewrite H0, H1.
    change (in_block (n :: n2 :: nt2) ((b, a) :: pt) (i :: it)) with
      (if (b <=? i)%nat && (i <? b + n)%nat
       then match in_block (n2 :: nt2) pt it with Some t => Some ((i - b)%nat :: t) | None => None end else None).
    destruct ((b <=? i)%nat && (i <? b + n)%nat); [destruct (in_block (n2 :: nt2) pt it)|]; split; ring.
Qed.
Theorem outside_full ns pd idx : ns <> [] -> length pd = length ns -> length idx = length ns ->
  entry (outside_tt (R:=R) ns pd) idx = match in_block ns pd idx with Some _ => 0 | None => 1 end.
Proof. intros Hne Hp Hi. unfold entry, outside_tt. apply (outside_rows ns true pd idx); assumption. Qed.

(* pad(x, padding, value): inside the original block the entries of x, the fill value everywhere else *)
Theorem pad_tt_full (x : tt R) padding v idx : wf x -> (length padding <= length x)%nat -> length idx = length x ->
  entry (pad_tt x padding v) idx =
    match in_block (shape x) (fill_pads (length x) padding) idx with Some i' => entry x i' | None => v end.
Proof.
  intros Hx Hp Hi. unfold pad_tt.
  set (pd := fill_pads (length x) padding).
  assert (Hpd : length pd = length x) by (apply fill_pads_length; assumption).
  assert (Hne : shape x <> []) by (destruct Hx as [Hn _]; destruct x; [congruence|discriminate]).
  assert (Hps : length pd = length (shape x)) by (rewrite shape_length; assumption).
  destruct (reqb v 0) eqn:Ev.
  - apply reqb_eq in Ev. subst v. apply padz_full; assumption.
  - assert (Hlo : length (outside_tt (R:=R) (shape x) pd) = length x).
    { unfold outside_tt. rewrite outside_cores_length; [apply shape_length|assumption]. }
    assert (Hwo : wf (outside_tt (R:=R) (shape x) pd)) by (apply outside_wf; assumption).
    rewrite add_full.
    + rewrite mul_scalar_full by (auto; lia).
      rewrite padz_full by assumption.
      rewrite outside_full by (rewrite ?shape_length; auto).
      destruct (in_block (shape x) pd idx) as [i'|] eqn:Eb; ring.
    + apply padz_wf; assumption.
    + apply mul_scalar_wf; assumption.
    + rewrite mul_scalar_length, padz_length; auto.
    + rewrite padz_length; auto.
Qed.

(* ---- cat ---- *)
Lemma cat_maps_length ns : forall i dim b a, length (cat_maps i dim ns b a) = length ns.
Proof. induction ns as [|n nt IH]; intros; simpl; auto. Qed.
Lemma cat_maps_id ns : forall i dim b a idx, (dim < i)%nat -> length idx = length ns ->
  map_idx (cat_maps i dim ns b a) idx = Some idx.
Proof.
  induction ns as [|n nt IH]; intros i dim b a [|j it] Hd Hl; simpl in Hl; try discriminate; [reflexivity|].
  cbn [cat_maps]. destruct (Nat.eqb_spec i dim); [lia|]. cbn [map_idx mm_id]. rewrite IH by lia. reflexivity.
Qed.
Lemma cat_maps_idx ns : forall i dim b a idx, (i <= dim)%nat -> (dim < i + length ns)%nat -> length idx = length ns ->
  map_idx (cat_maps i dim ns b a) idx =
    let j := nth (dim - i) idx 0%nat in
    if (b <=? j)%nat && (j <? b + nth (dim - i) ns 0)%nat then Some (upd (dim - i) (j - b)%nat idx) else None.
Proof.
  induction ns as [|n nt IH]; intros i dim b a [|j it] H1 H2 Hl; simpl in H2, Hl; try lia; try discriminate.
  cbn [cat_maps]. destruct (Nat.eqb_spec i dim) as [->|Hne].
  - rewrite Nat.sub_diag. cbn [map_idx mm_pad nth upd]. rewrite cat_maps_id by lia.
    destruct ((b <=? j)%nat && (j <? b + n)%nat); reflexivity.
  - cbn [map_idx mm_id]. rewrite IH by lia.
    replace (dim - i)%nat with (S (dim - S i)) by lia. cbn [nth upd].
    destruct ((b <=? nth (dim - S i) it 0)%nat && (nth (dim - S i) it 0 <? b + nth (dim - S i) nt 0)%nat); reflexivity.
Qed.

(* torch.cat((x, y), dim): the entries of x where the index along dim falls into x, those of y (shifted) after it *)
Theorem cat2_full (dim : nat) (x y : tt R) idx :
  wf x -> wf y -> length y = length x -> (dim < length x)%nat -> length idx = length x ->
  (nth dim idx 0 < nth dim (shape x) 0 + nth dim (shape y) 0)%nat ->
  entry (cat2 dim x y) idx =
    if (nth dim idx 0 <? nth dim (shape x) 0)%nat then entry x idx
    else entry y (upd dim (nth dim idx 0 - nth dim (shape x) 0)%nat idx).
Proof.
  intros Hx Hy Hl Hd Hi Hr. unfold cat2.
  rewrite add_full.
  - rewrite !remaps_entry by (rewrite ?cat_maps_length, ?shape_length; lia).
    rewrite !cat_maps_idx by (rewrite ?shape_length; lia).
    rewrite Nat.sub_0_r. cbn zeta.
    destruct (Nat.ltb_spec (nth dim idx 0%nat) (nth dim (shape x) 0%nat)) as [Hlt|Hge].
    + destruct (Nat.leb_spec (nth dim (shape x) 0%nat) (nth dim idx 0%nat)); [lia|].
      cbn [Nat.leb andb]. destruct (Nat.ltb_spec (nth dim idx 0%nat) (0 + nth dim (shape x) 0%nat)); [|lia].
      rewrite Nat.sub_0_r.
      replace (upd dim (nth dim idx 0%nat) idx) with idx; [ring|].
      clear -Hd Hi. revert dim x Hd Hi. induction idx as [|a t IH]; intros [|dim] [|c x] Hd Hi; simpl in *; try lia; auto.
      f_equal. apply (IH dim x); lia.
    + destruct (Nat.leb_spec (nth dim (shape x) 0%nat) (nth dim idx 0%nat)); [|lia].
      destruct (Nat.ltb_spec (nth dim idx 0%nat) (0 + nth dim (shape x) 0%nat)); [lia|].
      destruct (Nat.ltb_spec (nth dim idx 0%nat) (nth dim (shape x) 0%nat + nth dim (shape y) 0%nat)); [|lia].
      cbn [Nat.leb andb]. ring.
  - apply remaps_wf; [rewrite cat_maps_length, shape_length; lia|assumption].
  - apply remaps_wf; [rewrite cat_maps_length, shape_length; lia|assumption].
  - rewrite !remaps_length by (rewrite cat_maps_length, shape_length; lia). rewrite !cat_maps_length, !shape_length. lia.
  - rewrite remaps_length by (rewrite cat_maps_length, shape_length; lia). rewrite cat_maps_length, shape_length. lia.
Qed.

End StructP.
