(* bilinear_form(x, A, y) = sum_{i,j} conj(x_i) A_ij y_j: invariant of the three-einsum sweep (C07). *)
From Coq Require Import List Arith Lia Ring Bool.
From TT Require Import RingSig SumN Mat Dense Core CoreP Arith ArithP MatOps MatOpsP Reduce ReduceP.
Import ListNotations.

Section BilinearP.
Context {R : Type} {RO : RingOps R} {RL : RingLaws R}.
Add Ring Rr17 : Rth.
Open Scope R_scope.
Arguments chainM : simpl never.

Lemma sum_idx_swap ns1 : forall ns2 (f : list nat -> list nat -> R),
  sum_idx ns1 (fun i1 => sum_idx ns2 (fun i2 => f i1 i2)) = sum_idx ns2 (fun i2 => sum_idx ns1 (fun i1 => f i1 i2)).
Proof.
  induction ns1 as [|n t IH]; intros ns2 f; cbn [sum_idx]; [reflexivity|].
  rewrite (sum_n_ext n _ (fun j => sum_idx ns2 (fun i2 => sum_idx t (fun js => f (j :: js) i2)))).
  2:{ intros j _. apply IH. }
  symmetry. apply sum_idx_sum_n_swap.
Qed.

(* value of the running tensor T against three column vectors *)
Definition val3 (ra rs rb : nat) (T : nat -> nat -> nat -> R) (u v w : nat -> R) : R :=
  sum_n ra (fun l => sum_n rs (fun s => sum_n rb (fun r => T l s r * rconj (u l) * v s * w r))).

Lemma val3_ext ra rs rb T u u' v v' w w' :
  (forall l, (l < ra)%nat -> u l = u' l) -> (forall s, (s < rs)%nat -> v s = v' s) -> (forall r, (r < rb)%nat -> w r = w' r) ->
  val3 ra rs rb T u v w = val3 ra rs rb T u' v' w'.
Proof.
  intros Hu Hv Hw. unfold val3. apply sum_n_ext. intros l Hl. apply sum_n_ext. intros s Hs. apply sum_n_ext. intros r Hr.
  rewrite Hu, Hv, Hw by assumption. reflexivity.
Qed.

Lemma prod3_sums ka ks kb (U V W : nat -> R) :
  sum_n ka U * sum_n ks V * sum_n kb W = sum_idx [ka; ks; kb] (fun I => U (nth 0 I 0%nat) * V (nth 1 I 0%nat) * W (nth 2 I 0%nat)).
Proof.
  cbn [sum_idx nth].
  rewrite <- sum_n_scal_r, <- sum_n_scal_r. apply sum_n_ext. intros L _.
  rewrite (Rmul_comm Rth (U L) (sum_n ks V)), <- sum_n_scal_r.
  rewrite <- sum_n_scal_r. apply sum_n_ext. intros S _.
  rewrite <- sum_n_scal_l. apply sum_n_ext. intros Rr _. ring.
Qed.

(* one mode: the three einsums 'lsr,lmL->srmL', 'srmL,smnS->LSrn', 'LSrn,rnR->LSR' *)
Lemma val3_step ra rs rb ka ks kb nM nN (T : nat -> nat -> nat -> R)
      (a : nat -> nat -> nat -> R) (c : nat -> nat -> nat -> nat -> R) (b : nat -> nat -> nat -> R) (u v w : nat -> R) :
  val3 ka ks kb (fun L S R' => sum_n nN (fun n => sum_n nM (fun m => sum_n ra (fun l => sum_n rs (fun s => sum_n rb (fun r =>
        T l s r * rconj (a l m L) * c s m n S * b r n R')))))) u v w
  = sum_n nN (fun n => sum_n nM (fun m =>
      val3 ra rs rb T (fun l => sum_n ka (fun L => a l m L * u L)) (fun s => sum_n ks (fun S => c s m n S * v S))
                      (fun r => sum_n kb (fun R' => b r n R' * w R')))).
Proof.
  set (G := fun (I J : list nat) =>
     let L := nth 0 I 0%nat in let S := nth 1 I 0%nat in let R' := nth 2 I 0%nat in
     let n := nth 0 J 0%nat in let m := nth 1 J 0%nat in let l := nth 2 J 0%nat in let s := nth 3 J 0%nat in let r := nth 4 J 0%nat in
     T l s r * rconj (a l m L) * c s m n S * b r n R' * rconj (u L) * v S * w R').
  transitivity (sum_idx [ka; ks; kb] (fun I => sum_idx [nN; nM; ra; rs; rb] (fun J => G I J))).
  - unfold val3. cbn [sum_idx nth]. apply sum_n_ext. intros L _. apply sum_n_ext. intros S _. apply sum_n_ext. intros R' _.
    unfold G. cbn [nth].
    match goal with |- ?X * ?c1 * ?c2 * ?c3 = _ => transitivity (X * (c1 * c2 * c3)); [ring|] end.
    do 5 (rewrite <- sum_n_scal_r; apply sum_n_ext; intros ? _). ring.
  - rewrite sum_idx_swap. cbn [sum_idx nth]. apply sum_n_ext. intros n _. apply sum_n_ext. intros m _.
    unfold val3. apply sum_n_ext. intros l _. apply sum_n_ext. intros s _. apply sum_n_ext. intros r _.
    rewrite sum_n_conj.
    transitivity (T l s r * (sum_n ka (fun L => rconj (a l m L * u L)) * sum_n ks (fun S => c s m n S * v S) * sum_n kb (fun R' => b r n R' * w R'))); [|ring].
    rewrite prod3_sums. rewrite <- sum_idx_scal_l. cbn [sum_idx nth].
    apply sum_n_ext. intros L _. apply sum_n_ext. intros S _. apply sum_n_ext. intros R' _.
    unfold G. cbn [nth]. rewrite conj_mul. ring.
Qed.

Lemma bilin_loop_spec (x : tt R) : forall (A : ttm R) (y : tt R) T ra rs rb,
  length A = length x -> length y = length x -> chained ra x -> chained4 rs A -> chained rb y ->
  bilin_loop x A y T =
  sum_idx (shapeN A) (fun js => sum_idx (shapeM A) (fun is_ =>
     val3 ra rs rb T (fun l => chainM (slices x is_) l O) (fun s => chainM (slices4 A is_ js) s O) (fun r => chainM (slices y js) r O))).
Proof.
  induction x as [|a xs IH]; intros [|c As] [|b ys] T ra rs rb HlA Hly Hx HA Hy; simpl in HlA, Hly; try discriminate.
  - simpl in *. subst. cbn [bilin_loop shapeN shapeM map sum_idx slices slices4]. unfold val3.
    rewrite !sum_n_1. unfold chainM, Id, delta. simpl. rewrite conj_1. ring.
  - destruct Hx as [Ea Hx], HA as [Ec HA], Hy as [Eb Hy]. cbn [bilin_loop].
    rewrite (IH As ys _ (r1 a) (q1 c) (r1 b)) by (auto; lia).
    cbn [shapeN shapeM map sum_idx].
    (* bring the sums over n and m of this mode to the front *)
    rewrite (sum_idx_ext (shapeN As) _ (fun js => sum_n (nm c) (fun n => sum_idx (shapeM As) (fun is_ => sum_n (mm c) (fun m =>
        val3 ra rs rb T (fun l => chainM (slices (a :: xs) (m :: is_)) l O)
                        (fun s => chainM (slices4 (c :: As) (m :: is_) (n :: js)) s O)
                        (fun r => chainM (slices (b :: ys) (n :: js)) r O)))))).
    2:{ intros js _ _.
        rewrite (sum_idx_ext (shapeM As) _ (fun is_ => sum_n (nm c) (fun n => sum_n (mm c) (fun m =>
            val3 ra rs rb T (fun l => chainM (slices (a :: xs) (m :: is_)) l O)
                            (fun s => chainM (slices4 (c :: As) (m :: is_) (n :: js)) s O)
                            (fun r => chainM (slices (b :: ys) (n :: js)) r O))))).
        2:{ intros is_ _ _. rewrite Ea, Ec, Eb. rewrite val3_step. apply sum_n_ext. intros n _. apply sum_n_ext. intros m _.
            apply val3_ext; intros k _; cbn [slices slices4]; rewrite chainM_cons; reflexivity. }
        rewrite sum_idx_sum_n_swap. reflexivity. }
    rewrite sum_idx_sum_n_swap. apply sum_n_ext. intros n _.
    apply sum_idx_ext. intros js _ _. rewrite sum_idx_sum_n_swap. reflexivity.
Qed.

(* bilinear_form(x, A, y) = sum_{is, js} conj(x[is]) A[is, js] y[js] for every order, rectangular modes and ranks *)
Theorem bilinear_full (x : tt R) (A : ttm R) (y : tt R) : wf x -> wf4 A -> wf y -> length A = length x -> length y = length x ->
  bilinear_form x A y =
  sum_idx (shapeM A) (fun is_ => sum_idx (shapeN A) (fun js => rconj (entry x is_) * entry4 A is_ js * entry y js)).
Proof.
  intros [_ Hx] [_ HA] [_ Hy] HlA Hly. unfold bilinear_form.
  rewrite (bilin_loop_spec x A y _ 1%nat 1%nat 1%nat) by auto.
  rewrite sum_idx_swap. apply sum_idx_ext. intros is_ _ _. apply sum_idx_ext. intros js _ _.
  unfold val3, entry, entry4. rewrite !sum_n_1. ring.
Qed.

End BilinearP.
