(* Proofs for Model/Reduce.v (C07): dot / norm^2 / sums equal their dense values. *)
From Coq Require Import List Arith Lia Ring Bool.
From TT Require Import RingSig SumN Mat Dense Core CoreP Arith ArithP MatOps MatOpsP Reduce.
Import ListNotations.

Section ReduceP.
Context {R : Type} {RO : RingOps R} {RL : RingLaws R}.
Add Ring Rr6 : Rth.
Open Scope R_scope.
Arguments chainM : simpl never.

Lemma mmul_sum_l k n (F : nat -> mat R) B i j :
  mmul k (fun a b => sum_n n (fun t => F t a b)) B i j = sum_n n (fun t => mmul k (F t) B i j).
Proof.
  unfold mmul. rewrite sum_n_swap. apply sum_n_ext. intros l _. rewrite sum_n_scal_r. reflexivity.
Qed.
Lemma mmul_sum_r k n A (F : nat -> mat R) i j :
  mmul k A (fun a b => sum_n n (fun t => F t a b)) i j = sum_n n (fun t => mmul k A (F t) i j).
Proof.
  unfold mmul. rewrite sum_n_swap. apply sum_n_ext. intros l _. rewrite sum_n_scal_l. reflexivity.
Qed.
Lemma trm_mmul k (A B : mat R) i j : trm (mmul k A B) i j = mmul k (trm B) (trm A) i j.
Proof. unfold trm, mmul. apply sum_n_ext. intros l _. ring. Qed.
Lemma cjm_mmul k (A B : mat R) i j : cjm (mmul k A B) i j = mmul k (cjm A) (cjm B) i j.
Proof. unfold cjm, mmul. rewrite sum_n_conj. apply sum_n_ext. intros l _. apply conj_mul. Qed.

(* value of the Gram sweep: X^T G conj(Y) at (0,0) *)
Definition gval (ra rb : nat) (G X Y : mat R) : R := mmul ra (trm X) (mmul rb G (cjm Y)) O O.

Lemma gval_ext ra rb G X X' Y Y' :
  (forall p, (p < ra)%nat -> X p O = X' p O) -> (forall q, (q < rb)%nat -> Y q O = Y' q O) ->
  gval ra rb G X Y = gval ra rb G X' Y'.
Proof.
  intros HX HY. unfold gval. apply mmul_ext.
  - intros l Hl. unfold trm. apply HX; auto.
  - intros l Hl. apply mmul_ext; [reflexivity|]. intros q Hq. unfold cjm. rewrite HY; auto.
Qed.

Lemma gval_step ra rb ka kb n (G : mat R) (A B : nat -> mat R) (X Y : mat R) :
  gval ka kb (fun m n' => sum_n n (fun i => mmul ra (trm (A i)) (mmul rb G (cjm (B i))) m n')) X Y
  = sum_n n (fun i => gval ra rb G (mmul ka (A i) X) (mmul kb (B i) Y)).
Proof.
  unfold gval.
  transitivity (mmul ka (trm X) (fun a b => sum_n n (fun i =>
      mmul kb (mmul ra (trm (A i)) (mmul rb G (cjm (B i)))) (cjm Y) a b)) O O).
  { apply mmul_ext; [reflexivity|]. intros l _.
    apply (mmul_sum_l kb n (fun i => mmul ra (trm (A i)) (mmul rb G (cjm (B i)))) (cjm Y) l O). }
  rewrite (mmul_sum_r ka n (trm X) (fun i => mmul kb (mmul ra (trm (A i)) (mmul rb G (cjm (B i)))) (cjm Y)) O O).
  apply sum_n_ext. intros i _.
  transitivity (mmul ra (mmul ka (trm X) (trm (A i))) (mmul rb G (mmul kb (cjm (B i)) (cjm Y))) O O).
  2:{ apply mmul_ext.
      - intros l _. symmetry. apply trm_mmul.
      - intros l _. apply mmul_ext; [reflexivity|]. intros q _. symmetry. apply cjm_mmul. }
  rewrite mmul_assoc. apply mmul_ext; [reflexivity|]. intros l _.
  rewrite mmul_assoc. apply mmul_ext; [reflexivity|]. intros p _.
  apply mmul_assoc.
Qed.

Lemma dot_loop_spec (x : tt R) : forall (y : tt R) G ra rb,
  length y = length x -> chained ra x -> chained rb y ->
  dot_loop x y G =
  sum_idx (shape x) (fun idx => gval ra rb G (chainM (slices x idx)) (chainM (slices y idx))).
Proof.
  induction x as [|a xs IH]; intros [|b ys] G ra rb Hl Hx Hy; simpl in Hl; try discriminate.
  - simpl in *. subst. unfold gval, mmul, trm, cjm, chainM, Id, delta. simpl. rewrite conj_1. ring.
  - destruct Hx as [Ea Hx], Hy as [Eb Hy]. cbn [dot_loop shape map sum_idx].
    rewrite (IH ys _ (r1 a) (r1 b)) by (auto; lia).
    rewrite (sum_idx_ext (shape xs) _ (fun idx => sum_n (nn a) (fun i =>
        gval ra rb G (mmul (r1 a) (sl3 a i) (chainM (slices xs idx)))
                     (mmul (r1 b) (sl3 b i) (chainM (slices ys idx)))))).
    2:{ intros idx _ _. rewrite Ea, Eb. apply gval_step. }
    rewrite sum_idx_sum_n_swap. apply sum_n_ext. intros i _.
    apply sum_idx_ext. intros idx _ _. reflexivity.
Qed.

Theorem dot_full_spec (x y : tt R) : wf x -> wf y -> length y = length x ->
  dot_full x y = sum_idx (shape x) (fun idx => entry x idx * rconj (entry y idx)).
Proof.
  intros [_ Hx] [_ Hy] Hl. unfold dot_full. rewrite (dot_loop_spec x y _ 1%nat 1%nat) by auto.
  apply sum_idx_ext. intros idx _ _. unfold gval, mmul, trm, cjm, entry. simpl. ring.
Qed.

Theorem norm2_spec (x : tt R) : wf x ->
  norm2 x = sum_idx (shape x) (fun idx => entry x idx * rconj (entry x idx)).
Proof. intros H. apply dot_full_spec; auto. Qed.

Lemma sum_idx_merge (ms ns : list nat) : forall (f : list nat -> R), length ns = length ms ->
  sum_idx (map (fun mn => (fst mn * snd mn)%nat) (combine ms ns)) f
  = sum_idx ms (fun is_ => sum_idx ns (fun js => f (merge_idx ns is_ js))).
Proof.
  revert ns. induction ms as [|m mt IH]; intros [|n nt] f H; simpl in H; try discriminate.
  - reflexivity.
  - cbn [combine map sum_idx fst snd]. rewrite sum_n_prod. apply sum_n_ext. intros i _.
    rewrite (sum_n_ext n _ (fun j => sum_idx mt (fun is_ => sum_idx nt (fun js => f ((i * n + j)%nat :: merge_idx nt is_ js))))).
    2:{ intros j _. rewrite IH by lia. reflexivity. }
    rewrite <- sum_idx_sum_n_swap. apply sum_idx_ext. intros is_ _ _. reflexivity.
Qed.

Lemma shape_flatM (x : ttm R) :
  shape (flatM x) = map (fun mn => (fst mn * snd mn)%nat) (combine (shapeM x) (shapeN x)).
Proof. induction x as [|c cs IH]; simpl; auto. unfold shape, flatM in *. simpl. rewrite IH. reflexivity. Qed.

Theorem norm2_4_spec (x : ttm R) : wf4 x ->
  norm2_4 x = sum_idx (shapeM x) (fun is_ => sum_idx (shapeN x) (fun js =>
                entry4 x is_ js * rconj (entry4 x is_ js))).
Proof.
  intros Hx. unfold norm2_4. rewrite norm2_spec by (apply flatM_wf; auto).
  rewrite shape_flatM. rewrite sum_idx_merge by (rewrite shapeN_length, shapeM_length; reflexivity).
  apply sum_idx_ext. intros is_ Hi _. apply sum_idx_ext. intros js Hj HF.
  rewrite shapeM_length in Hi. rewrite <- !entry4_flat; auto.
Qed.

(* ---------- sum over all modes ---------- *)
Lemma sum_loop_spec (x : tt R) : forall C r, chained r x ->
  sum_loop x C r = sum_idx (shape x) (fun idx => sum_n r (fun p => C p * chainM (slices x idx) p O)).
Proof.
  induction x as [|c cs IH]; intros C r Hc; simpl in Hc.
  - subst r. simpl. unfold chainM, Id, delta. simpl. ring.
  - destruct Hc as [E Hc]. cbn [sum_loop shape map sum_idx]. rewrite IH by auto.
    rewrite (sum_idx_ext (shape cs) _ (fun idx => sum_n (nn c) (fun j => sum_n r (fun i =>
        C i * sum_n (r1 c) (fun k => e3 c i j k * chainM (slices cs idx) k O))))).
    2:{ intros idx _ _.
        rewrite (sum_n_ext (r1 c) _ (fun k => sum_n (nn c) (fun j => sum_n (r0 c) (fun i =>
                   C i * e3 c i j k * chainM (slices cs idx) k O)))).
        2:{ intros k _. rewrite <- sum_n_scal_r. apply sum_n_ext. intros j _.
            rewrite <- sum_n_scal_r. reflexivity. }
        rewrite sum_n_swap. apply sum_n_ext. intros j _. rewrite sum_n_swap. rewrite E.
        apply sum_n_ext. intros i _. rewrite <- sum_n_scal_l. apply sum_n_ext. intros k _. ring. }
    rewrite sum_idx_sum_n_swap. apply sum_n_ext. intros j _.
    apply sum_idx_ext. intros idx _ _. apply sum_n_ext. intros i _. reflexivity.
Qed.

Theorem sum_all_spec (x : tt R) : wf x -> sum_all x = sum_idx (shape x) (entry x).
Proof.
  intros [Hn Hc]. destruct x as [|c cs]; [congruence|]. simpl in Hc. destruct Hc as [E Hc].
  unfold sum_all. rewrite sum_loop_spec by auto. cbn [shape map sum_idx].
  rewrite (sum_idx_ext (shape cs) _ (fun idx => sum_n (nn c) (fun i =>
      sum_n (r1 c) (fun q => e3 c O i q * chainM (slices cs idx) q O)))).
  2:{ intros idx _ _. rewrite E.
      rewrite (sum_n_ext (r1 c) _ (fun q => sum_n (nn c) (fun i => e3 c O i q * chainM (slices cs idx) q O))).
      2:{ intros q _. rewrite sum_n_1. rewrite sum_n_scal_r. reflexivity. }
      apply sum_n_swap. }
  rewrite sum_idx_sum_n_swap. apply sum_n_ext. intros i _.
  apply sum_idx_ext. intros idx _ _. unfold entry. cbn [slices]. rewrite chainM_cons. reflexivity.
Qed.

Theorem sum_all4_spec (x : ttm R) : wf4 x ->
  sum_all4 x = sum_idx (shapeM x) (fun is_ => sum_idx (shapeN x) (fun js => entry4 x is_ js)).
Proof.
  intros Hx. unfold sum_all4. rewrite sum_all_spec by (apply flatM_wf; auto).
  rewrite shape_flatM. rewrite sum_idx_merge by (rewrite shapeN_length, shapeM_length; reflexivity).
  apply sum_idx_ext. intros is_ Hi _. apply sum_idx_ext. intros js Hj HF.
  rewrite shapeM_length in Hi. rewrite <- entry4_flat; auto.
Qed.

End ReduceP.
