(* C09: n-ary concatenation (torchtt.cat of a tuple) and a list of mode products, as folds of the binary / single-mode operations. *)
From Coq Require Import List Arith Lia Ring Bool.
From TT Require Import RingSig SumN Mat Dense Core CoreP Arith ArithP MatOps MatOpsP Reduce ReduceP Struct StructP.
Import ListNotations.

Section CatNP.
Context {R : Type} {RO : RingOps R} {RL : RingLaws R}.
Add Ring Rr9n : Rth.
Open Scope R_scope.

Lemma cat_maps_fst_id ns : forall i dim b a, (dim < i)%nat -> map fst (cat_maps i dim ns b a) = ns.
Proof.
  induction ns as [|n nt IH]; intros i dim b a H; [reflexivity|].
  cbn [cat_maps]. destruct (Nat.eqb_spec i dim); [lia|]. cbn [map fst mm_id]. rewrite IH by lia. reflexivity.
Qed.
Lemma cat_maps_fst ns : forall i dim b a, (i <= dim)%nat -> (dim < i + length ns)%nat ->
  map fst (cat_maps i dim ns b a) = upd (dim - i) (b + nth (dim - i) ns 0 + a)%nat ns.
Proof.
  induction ns as [|n nt IH]; intros i dim b a H1 H2; simpl in H2; [lia|].
  cbn [cat_maps]. destruct (Nat.eqb_spec i dim) as [->|Hne].
  - rewrite Nat.sub_diag. cbn [map fst mm_pad upd nth]. rewrite cat_maps_fst_id by lia. reflexivity.
  - cbn [map fst mm_id]. rewrite IH by lia. replace (dim - i)%nat with (S (dim - S i)) by lia. reflexivity.
Qed.

Lemma cat2_length dim (x y : tt R) : length y = length x -> length (cat2 dim x y) = length x.
Proof.
  intros H. unfold cat2.
  assert (H1 : length (remaps (cat_maps 0 dim (shape x) 0 (nth dim (shape y) 0%nat)) x) = length x).
  { rewrite remaps_length by (rewrite cat_maps_length, shape_length; reflexivity). rewrite cat_maps_length, shape_length. reflexivity. }
  assert (H2 : length (remaps (cat_maps 0 dim (shape y) (nth dim (shape x) 0%nat) 0) y) = length y).
  { rewrite remaps_length by (rewrite cat_maps_length, shape_length; reflexivity). rewrite cat_maps_length, shape_length. reflexivity. }
  rewrite add_length; [exact H1|]. rewrite H1, H2. exact H.
Qed.
Lemma cat2_wf dim (x y : tt R) : wf x -> wf y -> length y = length x -> wf (cat2 dim x y).
Proof.
  intros Hx Hy H. unfold cat2. apply add_wf.
  - apply remaps_wf; [rewrite cat_maps_length, shape_length; reflexivity|assumption].
  - apply remaps_wf; [rewrite cat_maps_length, shape_length; reflexivity|assumption].
  - rewrite !remaps_length by (rewrite cat_maps_length, shape_length; reflexivity). rewrite !cat_maps_length, !shape_length. assumption.
Qed.
Lemma cat2_shape dim (x y : tt R) : length y = length x -> (dim < length x)%nat ->
  shape (cat2 dim x y) = upd dim (nth dim (shape x) 0 + nth dim (shape y) 0)%nat (shape x).
Proof.
  intros H Hd. unfold cat2. rewrite add_shape.
  - rewrite remaps_shape by (rewrite cat_maps_length, shape_length; reflexivity).
    rewrite cat_maps_fst by (rewrite ?shape_length; lia). rewrite Nat.sub_0_r. reflexivity.
  - rewrite !remaps_length by (rewrite cat_maps_length, shape_length; reflexivity). rewrite !cat_maps_length, !shape_length. assumption.
Qed.

Lemma nth_upd_same (l : list nat) : forall k v, (k < length l)%nat -> nth k (upd k v l) 0%nat = v.
Proof. induction l as [|a t IH]; intros [|k] v H; simpl in *; try lia; auto. apply IH. lia. Qed.
Lemma upd_upd (l : list nat) : forall k v w, upd k v (upd k w l) = upd k v l.
Proof. induction l as [|a t IH]; intros [|k] v w; simpl; auto. f_equal. apply IH. Qed.
Lemma upd_length (l : list nat) : forall k v, length (upd k v l) = length l.
Proof. induction l as [|a t IH]; intros [|k] v; simpl; auto. Qed.

(* the specification of cat over a list, right-nested: the first operand whose range along `dim` contains the index *)
Fixpoint cat_spec (dim : nat) (ts : list (tt R)) (idx : list nat) : R :=
  match ts with
  | [] => 0
  | t :: rest =>
      if (nth dim idx 0 <? nth dim (shape t) 0)%nat then entry t idx
      else cat_spec dim rest (upd dim (nth dim idx 0 - nth dim (shape t) 0)%nat idx)
  end.
Fixpoint cat_total (dim : nat) (ts : list (tt R)) : nat :=
  match ts with [] => 0%nat | t :: rest => (nth dim (shape t) 0 + cat_total dim rest)%nat end.

Lemma cat_fold_full dim : forall (rest : list (tt R)) (x : tt R) idx,
  wf x -> (dim < length x)%nat -> length idx = length x ->
  Forall (fun t => wf t /\ length t = length x) rest ->
  (nth dim idx 0 < nth dim (shape x) 0 + cat_total dim rest)%nat ->
  entry (fold_left (cat2 dim) rest x) idx = cat_spec dim (x :: rest) idx.
Proof.
  induction rest as [|y rest IH]; intros x idx Hx Hd Hi Hall Hr.
  - cbn [fold_left cat_spec cat_total] in *. destruct (Nat.ltb_spec (nth dim idx 0%nat) (nth dim (shape x) 0%nat)); [reflexivity|lia].
  - inversion Hall as [|y' r' [Hy Hly] Hrest]; subst.
    cbn [fold_left].
    assert (Hsh : shape (cat2 dim x y) = upd dim (nth dim (shape x) 0 + nth dim (shape y) 0)%nat (shape x)) by (apply cat2_shape; assumption).
    rewrite IH.
    + cbn [cat_spec]. rewrite Hsh, nth_upd_same by (rewrite shape_length; lia).
      cbn [cat_total] in Hr.
      destruct (Nat.ltb_spec (nth dim idx 0%nat) (nth dim (shape x) 0 + nth dim (shape y) 0)%nat) as [Hlt|Hge].
      * rewrite cat2_full by (auto; lia).
        destruct (Nat.ltb_spec (nth dim idx 0%nat) (nth dim (shape x) 0%nat)) as [H1|H1]; [reflexivity|].
        rewrite nth_upd_same by lia.
        destruct (Nat.ltb_spec (nth dim idx 0 - nth dim (shape x) 0)%nat (nth dim (shape y) 0%nat)); [reflexivity|lia].
      * destruct (Nat.ltb_spec (nth dim idx 0%nat) (nth dim (shape x) 0%nat)) as [H1|H1]; [lia|].
        rewrite nth_upd_same by lia.
        destruct (Nat.ltb_spec (nth dim idx 0 - nth dim (shape x) 0)%nat (nth dim (shape y) 0%nat)); [lia|].
        rewrite upd_upd. f_equal. f_equal. lia.
    + apply cat2_wf; assumption.
    + rewrite cat2_length; assumption.
    + rewrite cat2_length; assumption.
    + rewrite cat2_length by assumption. exact Hrest.
    + rewrite Hsh, nth_upd_same by (rewrite shape_length; lia). cbn [cat_total] in Hr. lia.
Qed.

(* torchtt.cat(tensors, dim) for any number of operands *)
Theorem cat_tt_full dim (t : tt R) (rest : list (tt R)) idx :
  wf t -> (dim < length t)%nat -> length idx = length t ->
  Forall (fun u => wf u /\ length u = length t) rest ->
  (nth dim idx 0 < cat_total dim (t :: rest))%nat ->
  entry (cat_tt dim (t :: rest)) idx = cat_spec dim (t :: rest) idx.
Proof. intros. unfold cat_tt. apply cat_fold_full; assumption. Qed.

(* ---- a list of mode products: the dense specification is the fold of the single-mode contraction ---- *)
Fixpoint mprod_spec (f : list nat -> R) (ns : list nat) (ms : list (nat * nat * (nat -> nat -> R))) (idx : list nat) : R :=
  match ms with
  | [] => f idx
  | (k, l, M) :: t =>
      mprod_spec (fun i => sum_n (nth k ns 0%nat) (fun j => M (nth k i 0%nat) j * f (upd k j i))) (upd k l ns) t idx
  end.

Lemma mprod_spec_ext ms : forall (f g : list nat -> R) ns idx d, length idx = d ->
  (forall i, length i = d -> f i = g i) -> mprod_spec f ns ms idx = mprod_spec g ns ms idx.
Proof.
  induction ms as [|[[k l] M] t IH]; intros f g ns idx d Hi H; cbn [mprod_spec]; [apply H; assumption|].
  apply (IH _ _ _ _ d Hi). intros i Hl. apply sum_n_ext. intros j _. rewrite H; [reflexivity|]. rewrite upd_length. assumption.
Qed.

Theorem mprod_list_full : forall ms (x : tt R) idx,
  Forall (fun m => (fst (fst m) < length x)%nat) ms -> length idx = length x ->
  entry (mprod_list x ms) idx = mprod_spec (entry x) (shape x) ms idx.
Proof.
  induction ms as [|[[k l] M] t IH]; intros x idx Hall Hi; cbn [mprod_list mprod_spec]; [reflexivity|].
  inversion Hall as [|m r Hk Hr]; subst. cbn [fst] in Hk.
  rewrite IH.
  - rewrite mprod1_shape by assumption.
    apply (mprod_spec_ext t _ _ _ _ (length x) Hi). intros i Hl. apply mprod1_full; assumption.
  - rewrite mprod1_length. exact Hr.
  - rewrite mprod1_length. exact Hi.
Qed.

End CatNP.
