(* Operator-algebra core of the Riemannian (tangent-space) projection (C16), on an abstract abelian group with additive
   operators - no matrices, no sizes: it holds for every order and every rank profile at once.
   P = sum_{k=1}^{d-1} (A_{k-1} - A_k) B_k + A_{d-1}, with A_0 = id, A_k = left projectors U_{<=k} U_{<=k}^T (x) I,
   B_k = right projectors I (x) V_{>k}^T V_{>k}. *)
From Coq Require Import List Arith Lia.
Import ListNotations.

Section Proj.
Variable G : Type.
Variables (gz : G) (gadd gsub : G -> G -> G).
Hypothesis gadd_0_l : forall a, gadd gz a = a.
Hypothesis gadd_0_r : forall a, gadd a gz = a.
Hypothesis gsub_diag : forall a, gsub a a = gz.
Hypothesis gadd_assoc : forall a b c, gadd a (gadd b c) = gadd (gadd a b) c.
Hypothesis gadd_comm : forall a b, gadd a b = gadd b a.
Hypothesis gsub_add_distr : forall a b c d, gsub (gadd a b) (gadd c d) = gadd (gsub a c) (gsub b d).

Definition additive (f : G -> G) : Prop := forall a b, f (gadd a b) = gadd (f a) (f b).

(* the terms k = 1 .. n of the projector applied to z;  A, B indexed by the bond number *)
Fixpoint proj_terms (A B : nat -> G -> G) (n : nat) (z : G) : G :=
  match n with
  | O => gz
  | S k => gadd (proj_terms A B k z) (gsub (A k (B (S k) z)) (A (S k) (B (S k) z)))
  end.
Definition proj (A B : nat -> G -> G) (dm1 : nat) (z : G) : G := gadd (proj_terms A B dm1 z) (A dm1 z).

(* P x = x for a point whose left and right interface projectors all fix it (the base point of the tangent space) *)
Theorem proj_fixes A B dm1 x : (forall k, A k x = x) -> (forall k, B k x = x) -> proj A B dm1 x = x.
Proof.
  intros HA HB. unfold proj. rewrite HA.
  assert (H : forall n, proj_terms A B n x = gz).
  { induction n; simpl; [reflexivity|]. rewrite IHn, !HB, !HA, gsub_diag. apply gadd_0_l. }
  rewrite H. apply gadd_0_l.
Qed.

(* linearity: P (z + w) = P z + P w when every A_k, B_k is additive *)
Theorem proj_additive A B dm1 : (forall k, additive (A k)) -> (forall k, additive (B k)) -> additive (proj A B dm1).
Proof.
  intros HA HB z w. unfold proj.
  assert (H : forall n, proj_terms A B n (gadd z w) = gadd (proj_terms A B n z) (proj_terms A B n w)).
  { induction n; simpl; [rewrite gadd_0_l; reflexivity|].
    rewrite IHn. rewrite !HB, !HA. rewrite gsub_add_distr.
    set (a := proj_terms A B n z). set (b := proj_terms A B n w).
    set (c := gsub (A n (B (S n) z)) (A (S n) (B (S n) z))). set (e := gsub (A n (B (S n) w)) (A (S n) (B (S n) w))).
    rewrite <- (gadd_assoc a b (gadd c e)). rewrite (gadd_assoc b c e). rewrite (gadd_comm b c).
    rewrite <- (gadd_assoc c b e). rewrite (gadd_assoc a c (gadd b e)). reflexivity. }
  rewrite H, HA.
  set (a := proj_terms A B dm1 z). set (b := proj_terms A B dm1 w).
  rewrite <- (gadd_assoc a b (gadd (A dm1 z) (A dm1 w))). rewrite (gadd_assoc b (A dm1 z) (A dm1 w)).
  rewrite (gadd_comm b (A dm1 z)). rewrite <- (gadd_assoc (A dm1 z) b (A dm1 w)).
  rewrite (gadd_assoc a (A dm1 z) (gadd b (A dm1 w))). reflexivity.
Qed.
End Proj.

(* ranks of the projection: the tangent parametrisation [[U, 0],[dU, V]] doubles every interior rank at most *)
Definition tangent_ranks (rs : list nat) : list nat :=
  match rs with
  | [] => []
  | r0 :: t => r0 :: (map (fun r => 2 * r) (removelast t) ++ match t with [] => [] | _ => [last t 1] end)
  end.
Theorem tangent_ranks_le rs : Forall2 (fun r' r => r' <= 2 * r) (tangent_ranks rs) rs.
Proof.
  destruct rs as [|r0 t]; [constructor|]. simpl. constructor; [lia|].
  induction t as [|a t IH]; [constructor|].
  destruct t as [|b t']; simpl in *; [constructor; [lia|constructor]|].
  constructor; [lia|]. apply IH.
Qed.
