(* Facts about the core-level semantics: the executable evaluator agrees with the chain
   semantics, structural lemmas about slices. *)
From Coq Require Import List Arith Lia Ring Bool.
From TT Require Import RingSig SumN Mat Core.
Import ListNotations.

Section CoreP.
Context {R : Type} {RO : RingOps R} {RL : RingLaws R}.
Add Ring Rr3 : Rth.
Open Scope R_scope.

Lemma slices_length (x : tt R) : forall idx, length idx = length x -> length (slices x idx) = length x.
Proof. induction x as [|c cs IH]; intros [|i is_] H; simpl in *; try discriminate; auto. Qed.

Lemma chained_lastk (x : tt R) : forall r idx, chained r x -> length idx = length x ->
  lastk r (slices x idx) = 1%nat.
Proof.
  induction x as [|c cs IH]; intros r [|i is_] Hc Hl; simpl in *; try discriminate; auto.
  destruct Hc as [_ Hc]. apply IH; auto.
Qed.

Lemma chained4_lastk (x : ttm R) : forall r is_ js, chained4 r x -> length is_ = length x ->
  length js = length x -> lastk r (slices4 x is_ js) = 1%nat.
Proof.
  induction x as [|c cs IH]; intros r [|i it] [|j jt] Hc Hl Hl2; simpl in *; try discriminate; auto.
  destruct Hc as [_ Hc]. apply IH; auto.
Qed.

Lemma chainedb_ok (x : tt R) : forall r, chainedb r x = true <-> chained r x.
Proof.
  induction x as [|c cs IH]; intros r; simpl.
  - apply Nat.eqb_eq.
  - rewrite andb_true_iff, Nat.eqb_eq, IH. reflexivity.
Qed.
Lemma wfb_ok (x : tt R) : wfb x = true <-> wf x.
Proof.
  unfold wfb, wf. destruct x as [|c cs].
  - split; [discriminate|intros [H _]; congruence].
  - rewrite chainedb_ok. split; [intros H; split; [discriminate|exact H]|intros [_ H]; exact H].
Qed.
Lemma chained4b_ok (x : ttm R) : forall r, chained4b r x = true <-> chained4 r x.
Proof.
  induction x as [|c cs IH]; intros r; simpl.
  - apply Nat.eqb_eq.
  - rewrite andb_true_iff, Nat.eqb_eq, IH. reflexivity.
Qed.

Lemma nth_map_seq (f : nat -> R) n p : (p < n)%nat -> nth p (map f (seq 0 n)) 0 = f p.
Proof.
  intros H. rewrite (nth_indep _ 0 (f O)) by (rewrite map_length, seq_length; exact H).
  rewrite map_nth. rewrite seq_nth by exact H. reflexivity.
Qed.

(* the list evaluator computes column 0 of the chain *)
Lemma colvec_correct (x : tt R) : forall r idx p, chained r x -> length idx = length x -> (p < r)%nat ->
  nth p (colvec x idx) 0 = chainM (slices x idx) p 0%nat.
Proof.
  induction x as [|c cs IH]; intros r [|i is_] p Hc Hl Hp; simpl in *; try discriminate.
  - subst r. assert (p = 0)%nat by lia. subst p. reflexivity.
  - destruct Hc as [Hr Hc]. rewrite nth_map_seq by lia.
    unfold mmul. apply sum_n_ext. intros l Hlt. f_equal. apply (IH (r1 c)); auto.
Qed.

Theorem entry_l_correct (x : tt R) idx : wf x -> length idx = length x -> entry_l x idx = entry x idx.
Proof. intros [_ Hc] Hl. apply (colvec_correct x 1%nat); auto. Qed.

Lemma colvec4_correct (x : ttm R) : forall r is_ js p, chained4 r x -> length is_ = length x ->
  length js = length x -> (p < r)%nat ->
  nth p (colvec4 x is_ js) 0 = chainM (slices4 x is_ js) p 0%nat.
Proof.
  induction x as [|c cs IH]; intros r [|i it] [|j jt] p Hc Hl Hl2 Hp; simpl in *; try discriminate.
  - subst r. assert (p = 0)%nat by lia. subst p. reflexivity.
  - destruct Hc as [Hr Hc]. rewrite nth_map_seq by lia.
    unfold mmul. apply sum_n_ext. intros l Hlt. f_equal. apply (IH (q1 c)); auto.
Qed.

Theorem entry4_l_correct (x : ttm R) is_ js : wf4 x -> length is_ = length x -> length js = length x ->
  entry4_l x is_ js = entry4 x is_ js.
Proof. intros [_ Hc] Hl Hl2. apply (colvec4_correct x 1%nat); auto. Qed.

(* building a core from flat data and reading it back *)
Lemma core_of_flat_e a n b data p i q :
  e3 (core_of_flat a n b data) p i q = nth ((p * n + i) * b + q) data 0.
Proof. reflexivity. Qed.

End CoreP.
