(* Gradient transfer (C15): the V-level theorems instantiated in the ring of dual numbers.  If the cores of the operands carry
   a perturbation direction in their eps-components, the eps-component of every entry of the TT result is the directional
   derivative of that entry, and it equals the derivative of the dense expression by the rules of differentiation. *)
From Coq Require Import List Arith Lia Ring Bool.
From TT Require Import RingSig Instances Dual SumN Mat Dense Core CoreP Arith ArithP MatOps MatOpsP Reduce ReduceP Struct StructP.
Import ListNotations.

Section DualP.
Context {R : Type} {RO : RingOps R} {RL : RingLaws R}.
Add Ring Rdp : Rth.
Open Scope R_scope.

Lemma sum_n_tg n (f : nat -> dual R) : tg (sum_n n f) = sum_n n (fun i => tg (f i)).
Proof. induction n; simpl; [reflexivity|]. rewrite IHn. reflexivity. Qed.
Lemma sum_n_pr n (f : nat -> dual R) : pr (sum_n n f) = sum_n n (fun i => pr (f i)).
Proof. induction n; simpl; [reflexivity|]. rewrite IHn. reflexivity. Qed.
Lemma sum_idx_tg ns : forall (f : list nat -> dual R), tg (sum_idx ns f) = sum_idx ns (fun i => tg (f i)).
Proof. induction ns as [|n t IH]; intros f; simpl; [reflexivity|]. rewrite sum_n_tg. apply sum_n_ext. intros j _. apply IH. Qed.

(* x * y (elementwise): product rule, entry by entry *)
Theorem mul_grad (x y : tt (dual R)) idx : wf x -> wf y -> length y = length x -> length idx = length x ->
  tg (entry (mul x y) idx) = pr (entry x idx) * tg (entry y idx) + tg (entry x idx) * pr (entry y idx).
Proof. intros. rewrite mul_full by assumption. reflexivity. Qed.
(* x + y, x - y: linearity *)
Theorem add_grad (x y : tt (dual R)) idx : wf x -> wf y -> length y = length x -> length idx = length x ->
  tg (entry (add x y) idx) = tg (entry x idx) + tg (entry y idx).
Proof. intros. rewrite add_full by assumption. reflexivity. Qed.
Theorem sub_grad (x y : tt (dual R)) idx : wf x -> wf y -> length y = length x -> length idx = length x ->
  tg (entry (sub x y) idx) = tg (entry x idx) - tg (entry y idx).
Proof. intros. rewrite sub_full by assumption. reflexivity. Qed.
(* A @ x: derivative of the matrix-vector product, sum of product rules over the contracted modes *)
Theorem matvec_grad (A : ttm (dual R)) (x : tt (dual R)) is_ :
  wf4 A -> wf x -> length x = length A -> length is_ = length A ->
  tg (entry (matvec A x) is_) =
    sum_idx (shapeN A) (fun js => pr (entry4 A is_ js) * tg (entry x js) + tg (entry4 A is_ js) * pr (entry x js)).
Proof. intros. rewrite matvec_full by assumption. rewrite sum_idx_tg. reflexivity. Qed.
(* x ** y *)
Theorem kron_grad (x y : tt (dual R)) i j : wf x -> length i = length x ->
  tg (entry (kron_tt x y) (i ++ j)) = pr (entry x i) * tg (entry y j) + tg (entry x i) * pr (entry y j).
Proof. intros. rewrite kron_full by assumption. reflexivity. Qed.
(* sum() and dot(): derivative of the reductions *)
Theorem sum_all_grad (x : tt (dual R)) : wf x -> tg (sum_all x) = sum_idx (shape x) (fun idx => tg (entry x idx)).
Proof. intros. rewrite sum_all_spec by assumption. apply sum_idx_tg. Qed.
Theorem dot_grad (x y : tt (dual R)) : wf x -> wf y -> length y = length x ->
  tg (dot_full x y) = sum_idx (shape x) (fun idx => tg (entry x idx * rconj (entry y idx))).
Proof. intros. rewrite dot_full_spec by assumption. apply sum_idx_tg. Qed.
(* mode product and padding / cat building block (index remapping): derivatives pass through *)
Theorem mprod1_grad (x : tt (dual R)) k l (M : nat -> nat -> dual R) idx : (k < length x)%nat -> length idx = length x ->
  tg (entry (mprod1 x k l M) idx) =
    sum_n (nth k (shape x) 0%nat) (fun j => tg (M (nth k idx 0%nat) j * entry x (upd k j idx))).
Proof. intros. rewrite mprod1_full by assumption. apply sum_n_tg. Qed.
Theorem remaps_grad (fs : list modemap) (x : tt (dual R)) idx : length x = length fs -> length idx = length fs ->
  tg (entry (remaps fs x) idx) = match map_idx fs idx with Some idx' => tg (entry x idx') | None => 0 end.
Proof. intros. rewrite remaps_entry by assumption. destruct (map_idx fs idx); reflexivity. Qed.

(* the primal part of a dual computation is the original computation: taking pr commutes with chains *)
Definition pr_core (c : core3 (dual R)) : core3 R := mk3 (r0 c) (nn c) (r1 c) (fun p i q => pr (e3 c p i q)).
Lemma chain_pr (l : list (sl (dual R))) : forall p q,
  pr (chainM l p q) = chainM (map (fun x : sl (dual R) => (fst x, fun a b => pr (snd x a b))) l) p q.
Proof.
  induction l as [|[k A] t IH]; intros p q.
  - cbn. unfold Id, delta. destruct (Nat.eqb p q); reflexivity.
  - cbn [map fst snd]. change (chainM ((k, A) :: t) p q) with (sum_n k (fun a => A p a * chainM t a q)).
    rewrite sum_n_pr. cbn [chainM]. unfold mmul. apply sum_n_ext. intros a _. rewrite pr_mul, IH. reflexivity.
Qed.
Theorem entry_pr (x : tt (dual R)) idx : pr (entry x idx) = entry (map pr_core x) idx.
Proof.
  unfold entry. rewrite chain_pr. f_equal.
  revert idx. induction x as [|c cs IH]; intros [|i it]; simpl; auto. rewrite IH. reflexivity.
Qed.

End DualP.
