(* Proofs for Model/Meta.v: every object reachable by any sequence of calls is structurally well formed (C05);
   calls other than the documented in-place ones leave every existing object untouched (C06). *)
From Coq Require Import List Arith Lia Bool.
From TT Require Import Core Meta.
Import ListNotations.

Lemma ln_eqb_refl l : ln_eqb l l = true.
Proof.
  unfold ln_eqb. rewrite Nat.eqb_refl. simpl. induction l; simpl; auto. rewrite Nat.eqb_refl. simpl. assumption.
Qed.
Lemma ln_eqb_eq a : forall b, ln_eqb a b = true -> a = b.
Proof.
  unfold ln_eqb. induction a as [|x a IH]; intros [|y b] H; simpl in *; try discriminate; auto.
  apply andb_true_iff in H. destruct H as [Hl H]. apply andb_true_iff in H. destruct H as [Hxy H].
  apply Nat.eqb_eq in Hxy. subst. f_equal. apply IH. rewrite Hl. assumption.
Qed.
Lemma shape_eqb_refl s : shape_eqb s s = true.
Proof.
  destruct s as [l|l]; simpl; rewrite Nat.eqb_refl; simpl.
  - induction l; simpl; auto. rewrite Nat.eqb_refl. simpl. assumption.
  - induction l as [|[a b] l IH]; simpl; auto. rewrite !Nat.eqb_refl. simpl. assumption.
Qed.

(* ---- the constructor ---- *)
Theorem ctor_wf cs o : ctor cs = inr o -> wf_obj o = true.
Proof.
  unfold ctor. destruct (map fst cs) as [|c0 sh'] eqn:E; [discriminate|].
  destruct (chain_ok (cs_left c0) (c0 :: sh')) eqn:Hc; [|discriminate]. cbn [negb].
  destruct (forallb is4 (c0 :: sh') || forallb (fun c => negb (is4 c)) (c0 :: sh')) eqn:H4; [|discriminate]. cbn [negb].
  destruct (Nat.eqb (cs_left c0) 1 && Nat.eqb (last (map cs_right (c0 :: sh')) 0) 1) eqn:Hb; [|discriminate]. cbn [negb].
  intros H. inversion H; subst o; clear H.
  apply andb_true_iff in Hb. destruct Hb as [Hb1 Hb2]. apply Nat.eqb_eq in Hb1.
  unfold wf_obj, derive. cbn [ocores fttm fM fN fR fshape]. rewrite E.
  rewrite H4, Hb2. rewrite <- Hb1 at 1. rewrite Hc. rewrite Hb1.
  rewrite Bool.eqb_reflx, !ln_eqb_refl, shape_eqb_refl. reflexivity.
Qed.

Definition WFpool (st : state) : Prop := Forall (fun o => wf_obj o = true) (pool st).

Lemma push_wf st sh : WFpool st -> WFpool (push st sh).
Proof.
  intros H. unfold push. destruct (ctor (fresh st sh)) as [e|o] eqn:E; [assumption|].
  unfold WFpool. cbn [pool]. apply Forall_app. split; [assumption|]. constructor; [|constructor].
  eapply ctor_wf; eassumption.
Qed.

Lemma upd_nth_Forall {A} (P : A -> Prop) k v (l : list A) : Forall P l -> P v -> Forall P (upd_nth k v l).
Proof.
  intros Hl Hv. unfold upd_nth. apply Forall_app. split.
  - apply Forall_forall. intros x Hx. rewrite Forall_forall in Hl. apply Hl.
    rewrite <- (firstn_skipn k l). apply in_or_app. left. assumption.
  - destruct (skipn k l) eqn:E; [constructor|]. constructor; [assumption|].
    assert (Hs : Forall P (skipn k l)).
    { apply Forall_forall. intros x Hx. rewrite Forall_forall in Hl. apply Hl.
      rewrite <- (firstn_skipn k l). apply in_or_app. right. assumption. }
    rewrite E in Hs. inversion Hs. assumption.
Qed.

(* ---- set_core (in place) ---- *)
Lemma map_upd_nth {A B} (f : A -> B) k v (l : list A) : map f (upd_nth k v l) = upd_nth k (f v) (map f l).
Proof.
  unfold upd_nth. rewrite map_app, firstn_map, skipn_map. destruct (skipn k l); reflexivity.
Qed.
Lemma upd_nth_cons {A} k (v a : A) l : upd_nth (S k) v (a :: l) = a :: upd_nth k v l.
Proof. reflexivity. Qed.
Lemma upd_nth_same {A} (l : list A) : forall k v, nth_error l k = Some v -> upd_nth k v l = l.
Proof.
  induction l as [|a l IH]; intros [|k] v H; simpl in H; try discriminate.
  - inversion H. reflexivity.
  - rewrite upd_nth_cons, IH by assumption. reflexivity.
Qed.
Lemma map_upd_same {A B} (f : A -> B) (l : list A) k v old : nth_error l k = Some old -> f v = f old ->
  map f (upd_nth k v l) = map f l.
Proof.
  intros H E. rewrite map_upd_nth, E. apply upd_nth_same. rewrite nth_error_map, H. reflexivity.
Qed.
Lemma forallb_upd {A} (p : A -> bool) (l : list A) : forall k v old, nth_error l k = Some old -> p v = p old ->
  forallb p (upd_nth k v l) = forallb p l.
Proof.
  induction l as [|a l IH]; intros [|k] v old H E; simpl in H; try discriminate.
  - inversion H; subst. unfold upd_nth. simpl. rewrite E. reflexivity.
  - rewrite upd_nth_cons. simpl. erewrite IH; eauto.
Qed.
Lemma chain_upd (l : list cshape) : forall r k c old, nth_error l k = Some old ->
  cs_left c = cs_left old -> cs_right c = cs_right old -> chain_ok r (upd_nth k c l) = chain_ok r l.
Proof.
  induction l as [|a l IH]; intros r [|k] c old H El Er; simpl in H; try discriminate.
  - inversion H; subst. unfold upd_nth. simpl. rewrite El, Er. reflexivity.
  - rewrite upd_nth_cons. simpl. erewrite IH; eauto.
Qed.
Lemma hd_upd (l : list cshape) k c old d : nth_error l k = Some old -> is4 c = is4 old ->
  is4 (hd d (upd_nth k c l)) = is4 (hd d l).
Proof.
  destruct l as [|a l]; destruct k; simpl; intros H E; try discriminate.
  - inversion H; subst. unfold upd_nth. simpl. assumption.
  - reflexivity.
Qed.

Lemma wf_obj_alt o : wf_obj o = true <->
  let sh := map fst (ocores o) in
  sh <> [] /\ (forallb is4 sh || forallb (fun c => negb (is4 c)) sh) = true /\ chain_ok 1 sh = true
  /\ last (map cs_right sh) 0 = 1 /\ fttm o = is4 (hd (C3 0 0 0) sh)
  /\ fN o = map cs_n sh /\ fM o = (if is4 (hd (C3 0 0 0) sh) then map cs_m sh else [])
  /\ fR o = 1 :: map cs_right sh
  /\ shape_eqb (fshape o) (if is4 (hd (C3 0 0 0) sh) then ShM (combine (map cs_m sh) (map cs_n sh)) else ShT (map cs_n sh)) = true.
Proof.
  unfold wf_obj. cbn zeta. destruct (map fst (ocores o)) as [|c0 sh'] eqn:E.
  - split; [discriminate|]. intros [H _]. congruence.
  - cbn [hd]. split.
    + intros H. repeat (apply andb_true_iff in H; destruct H as [H ?]).
      repeat split; auto; try discriminate.
      * apply Nat.eqb_eq. assumption.
      * apply Bool.eqb_prop. assumption.
      * apply ln_eqb_eq. assumption.
      * apply ln_eqb_eq. assumption.
      * apply ln_eqb_eq. assumption.
    + intros [_ [H1 [H2 [H3 [H4 [H5 [H6 [H7 H8]]]]]]]].
      rewrite H1, H2, H3, H4, H5, H6, H7, H8. rewrite Nat.eqb_refl, Bool.eqb_reflx, !ln_eqb_refl. reflexivity.
Qed.

Theorem set_core_wf (x : obj) k c old id :
  wf_obj x = true -> nth_error (map fst (ocores x)) k = Some old ->
  cs_left c = cs_left old -> cs_right c = cs_right old -> is4 c = is4 old ->
  let cs' := upd_nth k (c, id) (ocores x) in
  let fN' := upd_nth k (cs_n c) (fN x) in
  let fM' := if fttm x then upd_nth k (cs_m c) (fM x) else fM x in
  wf_obj (mkObj cs' (fttm x) fM' fN' (fR x) (if fttm x then ShM (combine fM' fN') else ShT fN')) = true.
Proof.
  intros Hw Hn El Er E4. cbn zeta. apply wf_obj_alt in Hw. cbn zeta in Hw.
  destruct Hw as [Hne [H1 [H2 [H3 [H4 [H5 [H6 [H7 H8]]]]]]]].
  apply wf_obj_alt. cbn zeta. cbn [ocores fttm fM fN fR fshape].
  rewrite (map_upd_nth fst k (c, id) (ocores x)). cbn [fst].
  set (sh := map fst (ocores x)) in *.
  assert (Hhd : is4 (hd (C3 0 0 0) (upd_nth k c sh)) = is4 (hd (C3 0 0 0) sh)) by (eapply hd_upd; eauto).
  rewrite Hhd, H4. clear Hhd.
  assert (Hne' : upd_nth k c sh <> []).
  { intros Hnil. apply (f_equal (@length _)) in Hnil. unfold upd_nth in Hnil. rewrite app_length in Hnil.
    assert (Hk : k < length sh) by (apply nth_error_Some; congruence).
    destruct (skipn k sh) eqn:Es.
    + apply (f_equal (@length _)) in Es. rewrite skipn_length in Es. simpl in Es. lia.
    + simpl in Hnil. lia. }
  assert (G2 : (forallb is4 (upd_nth k c sh) || forallb (fun c => negb (is4 c)) (upd_nth k c sh)) = true).
  { rewrite (forallb_upd is4 sh k c old), (forallb_upd (fun c => negb (is4 c)) sh k c old); auto. rewrite E4. reflexivity. }
  assert (G3 : chain_ok 1 (upd_nth k c sh) = true) by (rewrite (chain_upd sh 1 k c old); auto).
  assert (G4 : map cs_right (upd_nth k c sh) = map cs_right sh) by (apply (map_upd_same cs_right sh k c old); auto).
  rewrite G4.
  revert H6 H8. destruct (is4 (hd (C3 0 0 0) sh)); intros H6 H8.
  - repeat split; auto.
    + rewrite H5, map_upd_nth. reflexivity.
    + rewrite H6, map_upd_nth. reflexivity.
    + rewrite H6, H5, <- !map_upd_nth. apply shape_eqb_refl.
  - repeat split; auto.
    + rewrite H5, map_upd_nth. reflexivity.
    + rewrite H5, <- map_upd_nth. apply shape_eqb_refl.
Qed.

(* ---- every call keeps the pool well formed ---- *)
Definition wf_sh (ttm : bool) (sh : list cshape) : bool :=
  match sh with
  | [] => false
  | c0 :: _ => (forallb is4 sh || forallb (fun c => negb (is4 c)) sh) && chain_ok 1 sh
               && Nat.eqb (last (map cs_right sh) 0) 1 && Bool.eqb ttm (is4 c0)
  end.
(* side condition on reduce_dims calls: the surviving core shapes chain (discharged for all inputs by rd_sh_wf below) *)
Definition reduce_ok (st : state) (c : call) : bool :=
  match c with
  | KReduce i excl => match nth_error (pool st) i with
                      | Some x => wf_sh (fttm x) (rd_sh 0 (shapes x) None [] excl)
                      | None => true end
  | _ => true
  end.

Lemma fresh_fst st sh : map fst (fresh st sh) = sh.
Proof.
  unfold fresh. generalize (next_id st). induction sh as [|c sh IH]; intros n; simpl; [reflexivity|].
  rewrite IH. reflexivity.
Qed.

Lemma wf_sh_obj ttm sh cs : map fst cs = sh -> wf_sh ttm sh = true ->
  wf_obj (mkObj cs ttm (if ttm then map cs_m sh else []) (map cs_n sh) (1 :: map cs_right sh)
                (if ttm then ShM (combine (map cs_m sh) (map cs_n sh)) else ShT (map cs_n sh))) = true.
Proof.
  intros E H. unfold wf_sh in H. destruct sh as [|c0 sh']; [discriminate|].
  repeat (apply andb_true_iff in H; destruct H as [H ?]).
  apply Bool.eqb_prop in H0. subst ttm.
  apply wf_obj_alt. cbn zeta. cbn [ocores fttm fM fN fR fshape]. rewrite E. cbn [hd].
  apply Nat.eqb_eq in H1.
  repeat split; auto; try discriminate. apply shape_eqb_refl.
Qed.

Theorem step_wf st c : WFpool st -> reduce_ok st c = true -> WFpool (step st c).
Proof.
  intros H Hr. destruct c; cbn [step];
    repeat match goal with
    | |- WFpool (match ?e with _ => _ end) => destruct e eqn:?
    | |- WFpool (if ?e then _ else _) => destruct e eqn:?
    end; try assumption; try (apply push_wf; assumption).
  - (* set_core *)
    unfold WFpool. cbn [pool]. apply upd_nth_Forall; [assumption|].
    match goal with H1 : nth_error (pool st) _ = Some ?x |- _ =>
      assert (Hx : wf_obj x = true) by (unfold WFpool in H; rewrite Forall_forall in H; apply H; eapply nth_error_In; eassumption) end.
    match goal with H1 : (_ && _ && _)%bool = true |- _ =>
      apply andb_true_iff in H1; destruct H1 as [H1 E4]; apply andb_true_iff in H1; destruct H1 as [El Er] end.
    apply Nat.eqb_eq in El, Er. apply Bool.eqb_prop in E4.
    eapply set_core_wf; eauto.
  - (* reduce_dims *)
    unfold WFpool. cbn [pool]. apply upd_nth_Forall; [assumption|].
    cbn [reduce_ok] in Hr.
    match goal with H1 : nth_error (pool st) _ = Some ?x |- _ => rewrite H1 in Hr end.
    apply wf_sh_obj; [apply fresh_fst|assumption].
Qed.

Fixpoint run_ok (st : state) (cs : list call) : Prop :=
  match cs with [] => True | c :: t => reduce_ok st c = true /\ run_ok (step st c) t end.

Theorem run_wf cs : forall st, WFpool st -> run_ok st cs -> WFpool (run st cs).
Proof.
  induction cs as [|c t IH]; intros st H Hok; [assumption|].
  destruct Hok as [H1 H2]. cbn [run fold_left]. apply IH; [apply step_wf; assumption|assumption].
Qed.
Theorem reachable_wf cs : run_ok init cs -> WFpool (run init cs).
Proof. apply run_wf. constructor. Qed.

(* ---- frames: operations never touch existing objects (C06) ---- *)
Lemma push_frame st sh i o : nth_error (pool st) i = Some o -> nth_error (pool (push st sh)) i = Some o.
Proof.
  intros H. unfold push. destruct (ctor (fresh st sh)); [assumption|]. cbn [pool].
  rewrite nth_error_app1; [assumption|]. apply nth_error_Some. congruence.
Qed.
Lemma upd_nth_other {A} (l : list A) : forall k i v, i <> k -> nth_error (upd_nth k v l) i = nth_error l i.
Proof.
  induction l as [|a l IH]; intros k i v H.
  - unfold upd_nth. rewrite skipn_nil, firstn_nil. reflexivity.
  - destruct k as [|k], i as [|i]; try congruence.
    + reflexivity.
    + reflexivity.
    + rewrite upd_nth_cons. simpl. apply IH. congruence.
Qed.

Theorem step_frame st c i o : is_inplace_on i c = false ->
  nth_error (pool st) i = Some o -> nth_error (pool (step st c)) i = Some o.
Proof.
  intros Hp H. destruct c; cbn [step is_inplace_on] in *;
    repeat match goal with
    | |- nth_error (pool (match ?e with _ => _ end)) _ = _ => destruct e eqn:?
    | |- nth_error (pool (if ?e then _ else _)) _ = _ => destruct e eqn:?
    end; try assumption; try (apply push_frame; assumption);
    cbn [pool]; rewrite upd_nth_other; auto; apply Nat.eqb_neq; assumption.
Qed.

(* any history: an object is bit-for-bit what it was unless a documented in-place call was aimed at it *)
Theorem history_frame cs : forall st i o, Forall (fun c => is_inplace_on i c = false) cs ->
  nth_error (pool st) i = Some o -> nth_error (pool (run st cs)) i = Some o.
Proof.
  induction cs as [|c t IH]; intros st i o HF H; [assumption|].
  inversion HF; subst. cbn [run fold_left]. apply IH; [assumption|]. apply step_frame; assumption.
Qed.

(* objects are only ever appended: the pool never shrinks and indices stay valid *)
Theorem step_length st c : length (pool st) <= length (pool (step st c)).
Proof.
  assert (Hp : forall sh, length (pool st) <= length (pool (push st sh))).
  { intros sh. unfold push. destruct (ctor (fresh st sh)); cbn [pool]; [lia|]. rewrite app_length. simpl. lia. }
  assert (Hu : forall k (v : obj), length (upd_nth k v (pool st)) >= length (pool st) \/ True) by (intros; right; exact I).
  destruct c; cbn [step];
    repeat match goal with
    | |- _ <= length (pool (match ?e with _ => _ end)) => destruct e eqn:?
    | |- _ <= length (pool (if ?e then _ else _)) => destruct e eqn:?
    end; auto; cbn [pool];
    match goal with |- _ <= length (upd_nth ?k ?v ?l) =>
      unfold upd_nth; rewrite app_length, firstn_length;
      match goal with H : nth_error (pool st) k = Some _ |- _ =>
        assert (Hk : k < length (pool st)) by (apply nth_error_Some; congruence) end;
      destruct (skipn k (pool st)) eqn:Es;
      [apply (f_equal (@length _)) in Es; rewrite skipn_length in Es; simpl in Es; lia
      |apply (f_equal (@length _)) in Es; rewrite skipn_length in Es; simpl in *; lia]
    end.
Qed.

(* ---- save / load and clone (C19) ---- *)
Lemma chain_ok_first r c sh : chain_ok r (c :: sh) = true -> cs_left c = r.
Proof. simpl. intros H. apply andb_true_iff in H. destruct H as [H _]. apply Nat.eqb_eq. assumption. Qed.

Theorem load_save_id (x : obj) : wf_obj x = true ->
  exists y, load (save x) = inr y /\ ocores y = ocores x /\ fttm y = fttm x /\ fN y = fN x /\ fM y = fM x /\ fR y = fR x
            /\ shape_eqb (fshape x) (fshape y) = true /\ wf_obj y = true.
Proof.
  intros Hw. apply wf_obj_alt in Hw. cbn zeta in Hw.
  destruct Hw as [Hne [H1 [H2 [H3 [H4 [H5 [H6 [H7 H8]]]]]]]].
  assert (Hc : ctor (ocores x) = inr (derive (ocores x))).
  { unfold ctor. destruct (map fst (ocores x)) as [|c0 sh'] eqn:E; [congruence|].
    assert (Hl : cs_left c0 = 1) by (eapply chain_ok_first; eassumption).
    rewrite Hl, H2, H1, H3. reflexivity. }
  assert (Hwf : wf_obj (derive (ocores x)) = true) by (eapply ctor_wf; exact Hc).
  exists (derive (ocores x)). split; [exact Hc|]. split; [reflexivity|].
  revert Hwf. unfold derive at 2 3 4 5 6. cbn [ocores fttm fM fN fR fshape].
  destruct (map fst (ocores x)) as [|c0 sh'] eqn:E; [congruence|]. cbn [hd] in *. intros Hwf.
  assert (Hl : cs_left c0 = 1) by (eapply chain_ok_first; eassumption).
  split; [symmetry; exact H4|]. split; [symmetry; exact H5|].
  split; [symmetry; exact H6|]. split; [rewrite H7, Hl; reflexivity|].
  split; [exact H8|exact Hwf].
Qed.

Lemma fresh_snd st sh : map snd (fresh st sh) = seq (next_id st) (length sh).
Proof.
  unfold fresh. generalize (next_id st). induction sh as [|c sh IH]; intros n; simpl; [reflexivity|].
  rewrite IH. reflexivity.
Qed.
Lemma ctor_cores cs o : ctor cs = inr o -> ocores o = cs.
Proof.
  unfold ctor. destruct (map fst cs); [discriminate|].
  repeat match goal with |- context [if ?b then _ else _] => destruct b end; try discriminate.
  intros H. inversion H. reflexivity.
Qed.

(* a clone shares no storage with the original (nor with any other object in existence) *)
Theorem clone_fresh st x : ids_below st -> In x (pool st) ->
  forall y, pool (clone_obj st x) = pool st ++ [y] ->
  forall id, In id (storages y) -> ~ In id (storages x).
Proof.
  intros Hinv Hx y Hy id Hid Hin.
  unfold clone_obj, push in Hy. destruct (ctor (fresh st (shapes x))) as [e|o] eqn:E.
  - apply (f_equal (@length _)) in Hy. rewrite app_length in Hy. simpl in Hy. lia.
  - cbn [pool] in Hy. apply app_inv_head in Hy. inversion Hy; subst y.
    apply ctor_cores in E. unfold storages in Hid. rewrite E, fresh_snd in Hid.
    apply in_seq in Hid. specialize (Hinv x Hx id Hin). lia.
Qed.
(* the invariant behind it: every storage in existence is older than the allocation counter *)
Theorem push_ids st sh : ids_below st -> ids_below (push st sh).
Proof.
  intros Hinv. unfold push. destruct (ctor (fresh st sh)) as [e|o] eqn:E; [assumption|].
  intros o' Ho' id Hid. cbn [pool next_id] in *. apply in_app_or in Ho'. destruct Ho' as [Ho'|[Ho'|[]]].
  - specialize (Hinv o' Ho' id Hid). lia.
  - subst o'. apply ctor_cores in E. unfold storages in Hid. rewrite E, fresh_snd in Hid. apply in_seq in Hid. lia.
Qed.

(* ---- reduce_dims at shape level: the surviving cores always chain (discharges the side condition reduce_ok) ---- *)
Definition curr (racc : list cshape) : nat := match racc with c :: _ => cs_right c | [] => 1 end.
Definition kindb (b : bool) (l : list cshape) : bool := forallb (fun c => Bool.eqb (is4 c) b) l.
Fixpoint endr (r : nat) (l : list cshape) : nat := match l with [] => r | c :: t => endr (cs_right c) t end.

Lemma last_default (l : list nat) : forall d d', l <> [] -> last l d = last l d'.
Proof. induction l as [|a [|b t] IH]; intros d d' H; [congruence|reflexivity|]. apply (IH d d'). discriminate. Qed.
Lemma endr_last l : forall r, endr r l = last (map cs_right l) r.
Proof.
  induction l as [|a t IH]; intros r; [reflexivity|]. cbn [endr map]. rewrite IH.
  destruct t as [|b t']; [reflexivity|].
  change (last (cs_right a :: map cs_right (b :: t')) r) with (last (map cs_right (b :: t')) r).
  apply last_default. discriminate.
Qed.
Lemma endr_snoc l : forall r c, endr r (l ++ [c]) = cs_right c.
Proof. induction l as [|a t IH]; intros r c; simpl; auto. Qed.
Lemma chain_ok_snoc l : forall r c, chain_ok r (l ++ [c]) = chain_ok r l && Nat.eqb (cs_left c) (endr r l).
Proof.
  induction l as [|a l IH]; intros r c; simpl.
  - rewrite andb_true_r. reflexivity.
  - rewrite IH. rewrite andb_assoc. reflexivity.
Qed.
Lemma endr_rev racc : endr 1 (rev racc) = curr racc.
Proof. destruct racc as [|c t]; [reflexivity|]. simpl. apply endr_snoc. Qed.
Lemma kindb_app b l1 l2 : kindb b (l1 ++ l2) = kindb b l1 && kindb b l2.
Proof. unfold kindb. apply forallb_app. Qed.
Lemma kindb_rev b l : kindb b (rev l) = kindb b l.
Proof.
  induction l; simpl; [reflexivity|]. rewrite kindb_app. simpl. rewrite IHl, andb_true_r. apply andb_comm.
Qed.
Lemma endr_nonempty r r' l : l <> [] -> endr r l = endr r' l.
Proof. destruct l; [congruence|reflexivity]. Qed.

Definition with_left (l : nat) (c : cshape) : cshape := match c with C3 _ n b => C3 l n b | C4 _ m n b => C4 l m n b end.
Definition with_right (r : nat) (c : cshape) : cshape := match c with C3 a n _ => C3 a n r | C4 a m n _ => C4 a m n r end.
Lemma with_left_props l c : cs_left (with_left l c) = l /\ cs_right (with_left l c) = cs_right c /\ is4 (with_left l c) = is4 c.
Proof. destruct c; repeat split. Qed.
Lemma with_right_props r c : cs_left (with_right r c) = cs_left c /\ cs_right (with_right r c) = r /\ is4 (with_right r c) = is4 c.
Proof. destruct c; repeat split. Qed.

Lemma rd_sh_unfold i c0 cs carry racc excl :
  rd_sh i (c0 :: cs) carry racc excl =
  let c := match carry with Some l => with_left l c0 | None => c0 end in
  if removable i c excl then
    if (cs_right c <? cs_left c) || (match cs with [] => true | _ => false end) then
      match racc with
      | l :: racc' => rd_sh (S i) cs None (with_right (cs_right c) l :: racc') excl
      | [] => match cs with [] => [c] | _ => rd_sh (S i) cs (Some (cs_left c)) [] excl end
      end
    else rd_sh (S i) cs (Some (cs_left c)) racc excl
  else rd_sh (S i) cs None (c :: racc) excl.
Proof.
  cbn [rd_sh]. destruct carry as [l|]; destruct c0; cbn zeta; cbn [with_left];
    repeat match goal with |- context [if ?b then _ else _] => destruct b end; try reflexivity;
    destruct racc as [|[] ?]; reflexivity.
Qed.

Lemma rd_sh_inv (rest : list cshape) : forall i carry racc excl b,
  kindb b rest = true -> kindb b racc = true -> chain_ok 1 (rev racc) = true ->
  match rest with
  | [] => carry = None /\ curr racc = 1 /\ racc <> []
  | c0 :: _ => chain_ok (cs_left c0) rest = true /\ endr 0 rest = 1 /\
               (match carry with Some l => l | None => cs_left c0 end) = curr racc
  end ->
  let r := rd_sh i rest carry racc excl in
  r <> [] /\ kindb b r = true /\ chain_ok 1 r = true /\ endr 1 r = 1.
Proof.
  induction rest as [|c0 cs IH]; intros i carry racc excl b Hk Hka Hch Hinv.
  - destruct Hinv as [_ [Hc Hne]]. cbn [rd_sh]. cbn zeta. repeat split.
    + intros E. apply Hne. destruct racc; [reflexivity|]. simpl in E. destruct (rev racc); discriminate.
    + rewrite kindb_rev. assumption.
    + assumption.
    + rewrite endr_rev. assumption.
  - destruct Hinv as [Hc0 [Hend He]]. cbn zeta. rewrite rd_sh_unfold. cbn zeta.
    set (c := match carry with Some l => with_left l c0 | None => c0 end).
    assert (Hcl : cs_left c = curr racc).
    { unfold c. destruct carry as [l|]; [destruct (with_left_props l c0) as [H _]; rewrite H|]; exact He. }
    assert (Hcr : cs_right c = cs_right c0) by (unfold c; destruct carry as [l|]; [apply with_left_props|reflexivity]).
    assert (Hc4 : is4 c = is4 c0) by (unfold c; destruct carry as [l|]; [apply with_left_props|reflexivity]).
    simpl in Hk. apply andb_true_iff in Hk. destruct Hk as [Hk0 Hkcs].
    simpl in Hc0. apply andb_true_iff in Hc0. destruct Hc0 as [_ Hccs].
    (* facts about the tail of the input *)
    assert (Htail : match cs with
                    | [] => cs_right c0 = 1
                    | c1 :: _ => chain_ok (cs_left c1) cs = true /\ endr 0 cs = 1 /\ cs_left c1 = cs_right c0 end).
    { destruct cs as [|c1 cs'].
      - simpl in Hend. exact Hend.
      - simpl in Hccs. apply andb_true_iff in Hccs. destruct Hccs as [H1 H2]. apply Nat.eqb_eq in H1.
        repeat split.
        + simpl. rewrite Nat.eqb_refl. exact H2.
        + exact Hend.
        + exact H1. }
    destruct (removable i c excl).
    + destruct ((cs_right c <? cs_left c) || match cs with [] => true | _ :: _ => false end) eqn:Eleft.
      * destruct racc as [|l racc'].
        -- destruct cs as [|c1 cs'].
           ++ (* everything absorbed: a single core *)
              simpl in Hcl. repeat split; try discriminate.
              ** simpl. rewrite Hc4, Hk0. reflexivity.
              ** simpl. rewrite Hcl. reflexivity.
              ** simpl. rewrite Hcr. exact Htail.
           ++ destruct Htail as [T1 [T2 T3]].
              apply (IH (S i) (Some (cs_left c)) [] excl b); auto.
        -- (* absorbed into the core on the left *)
           destruct (with_right_props (cs_right c) l) as [W1 [W2 W3]].
           simpl in Hka. apply andb_true_iff in Hka. destruct Hka as [Hl4 Hka'].
           assert (Hch' : chain_ok 1 (rev (with_right (cs_right c) l :: racc')) = true).
           { simpl in Hch |- *. rewrite chain_ok_snoc in Hch |- *. rewrite W1. exact Hch. }
           assert (Hk' : kindb b (with_right (cs_right c) l :: racc') = true) by (simpl; rewrite W3, Hl4; exact Hka').
           apply (IH (S i) None (with_right (cs_right c) l :: racc') excl b); auto.
           destruct cs as [|c1 cs'].
           ++ repeat split; try discriminate. simpl. rewrite W2, Hcr. exact Htail.
           ++ destruct Htail as [T1 [T2 T3]]. repeat split; auto. simpl. rewrite W2, Hcr. exact T3.
      * (* carried to the right *)
        apply orb_false_iff in Eleft. destruct Eleft as [_ Enil]. destruct cs as [|c1 cs']; [discriminate|].
        destruct Htail as [T1 [T2 T3]].
        apply (IH (S i) (Some (cs_left c)) racc excl b); auto.
    + (* kept *)
      assert (Hch' : chain_ok 1 (rev (c :: racc)) = true).
      { simpl. rewrite chain_ok_snoc, Hch, endr_rev, Hcl, Nat.eqb_refl. reflexivity. }
      assert (Hk' : kindb b (c :: racc) = true) by (simpl; rewrite Hc4, Hk0; exact Hka).
      apply (IH (S i) None (c :: racc) excl b); auto.
      destruct cs as [|c1 cs'].
      * repeat split; try discriminate. simpl. rewrite Hcr. exact Htail.
      * destruct Htail as [T1 [T2 T3]]. repeat split; auto. simpl. rewrite Hcr. exact T3.
Qed.

(* for every well formed object and every exclusion list the surviving core shapes are well formed *)
Theorem rd_sh_wf (x : obj) excl : wf_obj x = true -> wf_sh (fttm x) (rd_sh 0 (shapes x) None [] excl) = true.
Proof.
  intros Hw. apply wf_obj_alt in Hw. cbn zeta in Hw. destruct Hw as [Hne [H1 [H2 [H3 [H4 _]]]]].
  unfold shapes. set (sh := map fst (ocores x)) in *.
  destruct sh as [|c0 sh'] eqn:E; [congruence|]. cbn [hd] in H4.
  assert (Hkind : kindb (is4 c0) (c0 :: sh') = true).
  { unfold kindb. apply forallb_forall. intros c Hc. apply orb_true_iff in H1. destruct H1 as [H1|H1]; rewrite forallb_forall in H1.
    - rewrite (H1 c Hc), (H1 c0 (or_introl eq_refl)). reflexivity.
    - pose proof (H1 c Hc) as Hx. pose proof (H1 c0 (or_introl eq_refl)) as Hy.
      apply negb_true_iff in Hx, Hy. rewrite Hx, Hy. reflexivity. }
  assert (Hl : cs_left c0 = 1) by (eapply chain_ok_first; eassumption).
  pose proof (rd_sh_inv (c0 :: sh') 0 None [] excl (is4 c0) Hkind eq_refl eq_refl) as Hinv.
  assert (Hpre : chain_ok (cs_left c0) (c0 :: sh') = true /\ endr 0 (c0 :: sh') = 1 /\ cs_left c0 = curr []).
  { rewrite Hl. repeat split; [exact H2|rewrite endr_last; exact H3]. }
  specialize (Hinv Hpre). cbn zeta in Hinv.
  destruct Hinv as [R1 [R2 [R3 R4]]].
  unfold wf_sh. destruct (rd_sh 0 (c0 :: sh') None [] excl) as [|r0 rt] eqn:Er; [congruence|].
  rewrite R3. rewrite (endr_nonempty 1 0) in R4 by discriminate. rewrite endr_last in R4. rewrite R4.
  rewrite H4.
  assert (Hr0 : is4 r0 = is4 c0) by (simpl in R2; apply andb_true_iff in R2; destruct R2 as [Ha _]; apply Bool.eqb_prop; exact Ha).
  rewrite Hr0, Bool.eqb_reflx.
  assert (Hu : forallb is4 (r0 :: rt) || forallb (fun c => negb (is4 c)) (r0 :: rt) = true).
  { unfold kindb in R2. destruct (is4 c0).
    - apply orb_true_iff. left. rewrite forallb_forall in R2 |- *. intros c Hc. specialize (R2 c Hc). apply Bool.eqb_prop in R2. exact R2.
    - apply orb_true_iff. right. rewrite forallb_forall in R2 |- *. intros c Hc. specialize (R2 c Hc). apply Bool.eqb_prop in R2. rewrite R2. reflexivity. }
  rewrite Hu. reflexivity.
Qed.

(* hence: no side condition *)
Theorem step_wf_all st c : WFpool st -> WFpool (step st c).
Proof.
  intros H. apply step_wf; [assumption|]. destruct c; try reflexivity. cbn [reduce_ok].
  destruct (nth_error (pool st) i) as [x|] eqn:E; [|reflexivity].
  apply rd_sh_wf. unfold WFpool in H. rewrite Forall_forall in H. apply H. eapply nth_error_In. eassumption.
Qed.
Theorem reachable_wf_all cs : WFpool (run init cs).
Proof.
  assert (H : forall cs st, WFpool st -> WFpool (run st cs)).
  { induction cs0 as [|c t IH]; intros st Hs; [assumption|]. cbn [run fold_left]. apply IH. apply step_wf_all. assumption. }
  apply H. constructor.
Qed.
