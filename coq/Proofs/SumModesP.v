(* sum(index) and dot(a, b, axis): the keep-dim core sums followed by reduce_dims equal the dense reductions (C07). *)
From Coq Require Import List Arith Lia Ring Bool.
From TT Require Import RingSig SumN Mat Dense Core CoreP Arith ArithP MatOps Reduce ReduceP ReduceDimsP.
Import ListNotations.

Section SumModesP.
Context {R : Type} {RO : RingOps R} {RL : RingLaws R}.
Add Ring Rr12 : Rth.
Open Scope R_scope.

Arguments chainM : simpl never.

(* sum over the positions listed in index of a function of the full index; the entries of idx at those positions are ignored *)
Fixpoint sumsel (i : nat) (ns index : list nat) (f : list nat -> R) (idx : list nat) : R :=
  match ns, idx with
  | n :: nt, j :: jt =>
      if memb i index then sum_n n (fun k => sumsel (S i) nt index (fun t => f (k :: t)) jt)
      else sumsel (S i) nt index (fun t => f (j :: t)) jt
  | _, _ => f []
  end.

Lemma sumsel_ext ns : forall i index f g idx, (forall t, f t = g t) -> sumsel i ns index f idx = sumsel i ns index g idx.
Proof.
  induction ns as [|n nt IH]; intros i index f g idx H; [apply H|].
  destruct idx as [|j jt]; [apply H|]. cbn [sumsel]. destruct (memb i index).
  - apply sum_n_ext. intros k _. apply IH. intros t. apply H.
  - apply IH. intros t. apply H.
Qed.
Lemma sumsel_scal_l ns : forall i index c f idx, length idx = length ns ->
  sumsel i ns index (fun t => c * f t) idx = c * sumsel i ns index f idx.
Proof.
  induction ns as [|n nt IH]; intros i index c f [|j jt] Hl; simpl in Hl; try discriminate; [reflexivity|].
  cbn [sumsel]. destruct (memb i index).
  - rewrite <- sum_n_scal_l. apply sum_n_ext. intros k _. apply IH. lia.
  - apply IH. lia.
Qed.
Lemma sumsel_sum_n ns : forall i index m (F : nat -> list nat -> R) idx, length idx = length ns ->
  sumsel i ns index (fun t => sum_n m (fun a => F a t)) idx = sum_n m (fun a => sumsel i ns index (F a) idx).
Proof.
  induction ns as [|n nt IH]; intros i index m F [|j jt] Hl; simpl in Hl; try discriminate; [reflexivity|].
  cbn [sumsel]. destruct (memb i index).
  - rewrite sum_n_swap. apply sum_n_ext. intros k _. apply (IH (S i) index m (fun a t => F a (k :: t))). lia.
  - apply (IH (S i) index m (fun a t => F a (j :: t))). lia.
Qed.

(* the cores after the keep-dim sums *)
Lemma sum_cores_chain (x : tt R) : forall i index idx p q, length idx = length x ->
  chainM (slices (sum_cores i x index) idx) p q =
  sumsel i (shape x) index (fun idx2 => chainM (slices x idx2) p q) idx.
Proof.
  induction x as [|c cs IH]; intros i index [|j jt] p q Hl; simpl in Hl; try discriminate; [reflexivity|].
  cbn [sum_cores slices shape map sumsel]. fold (shape cs).
  destruct (memb i index) eqn:Em.
  - rewrite chainM_cons. cbn [r1 sum_core e3].
    rewrite (sum_n_ext _ _ (fun a => sum_n (nn c) (fun k =>
       sumsel (S i) (shape cs) index (fun t => e3 c p k a * chainM (slices cs t) a q) jt))).
    2:{ intros a _. rewrite IH by lia. rewrite <- sum_n_scal_r. apply sum_n_ext. intros k _.
        rewrite <- sumsel_scal_l by (unfold shape; rewrite map_length; lia). reflexivity. }
    rewrite sum_n_swap. apply sum_n_ext. intros k _.
    rewrite <- (sumsel_sum_n (shape cs) (S i) index (r1 c) (fun a t => e3 c p k a * chainM (slices cs t) a q))
      by (unfold shape; rewrite map_length; lia).
    apply sumsel_ext. intros t. cbn [slices]. rewrite chainM_cons. reflexivity.
  - rewrite chainM_cons.
    rewrite (sum_n_ext _ _ (fun a => sumsel (S i) (shape cs) index (fun t => e3 c p j a * chainM (slices cs t) a q) jt)).
    2:{ intros a _. rewrite IH by lia. rewrite <- sumsel_scal_l by (unfold shape; rewrite map_length; lia). reflexivity. }
    rewrite <- (sumsel_sum_n (shape cs) (S i) index (r1 c) (fun a t => e3 c p j a * chainM (slices cs t) a q))
      by (unfold shape; rewrite map_length; lia).
    apply sumsel_ext. intros t. cbn [slices]. rewrite chainM_cons. reflexivity.
Qed.

(* the full index that reduce_dims reads: 0 on the summed positions, the given indices elsewhere *)
Fixpoint spread (i : nat) (ns index idx' : list nat) : list nat :=
  match ns with
  | [] => []
  | _ :: nt => if memb i index then O :: spread (S i) nt index idx' else hd O idx' :: spread (S i) nt index (tl idx')
  end.
Lemma spread_length ns : forall i index idx', length (spread i ns index idx') = length ns.
Proof. induction ns; intros; simpl; [reflexivity|]. destruct (memb i index); simpl; rewrite IHns; reflexivity. Qed.

Lemma sumsel_spread ns : forall i index f idx', length idx' = length (keep_pos i ns index) ->
  sumsel i ns index f (spread i ns index idx') = dsum_rec i ns index f idx'.
Proof.
  induction ns as [|n nt IH]; intros i index f idx' Hl; [reflexivity|].
  cbn [spread sumsel dsum_rec keep_pos] in *. destruct (memb i index) eqn:Em; cbn [app] in Hl.
  - apply sum_n_ext. intros k _. apply IH. exact Hl.
  - destruct idx' as [|k kt]; [simpl in Hl; discriminate|]. cbn [hd tl]. apply IH. simpl in Hl. lia.
Qed.

Lemma memb_In j l : memb j l = true <-> In j l.
Proof.
  unfold memb. rewrite existsb_exists. split.
  - intros [x [Hx E]]. apply Nat.eqb_eq in E. subst. assumption.
  - intros H. exists j. split; [assumption|apply Nat.eqb_refl].
Qed.
Lemma In_others j : forall n i index, In j (others i n index) <-> (i <= j < i + n)%nat /\ memb j index = false.
Proof.
  induction n as [|n IH]; intros i index; cbn [others].
  - simpl. split; [tauto|intros [H _]; lia].
  - rewrite in_app_iff, IH. destruct (memb i index) eqn:Ei; simpl.
    + split.
      * intros [[]|[H1 H2]]. split; [lia|assumption].
      * intros [H1 H2]. right. split; [|assumption]. destruct (Nat.eq_dec j i) as [->|Hne]; [congruence|lia].
    + split.
      * intros [[->|[]]|[H1 H2]]; split; try lia; assumption.
      * intros [H1 H2]. destruct (Nat.eq_dec i j) as [->|Hne]; [left; left; reflexivity|right; split; [lia|assumption]].
Qed.
Lemma memb_others j n index : (j < n)%nat -> memb j (others 0 n index) = negb (memb j index).
Proof.
  intros Hj. destruct (memb j index) eqn:E; simpl.
  - destruct (memb j (others 0 n index)) eqn:E2; [|reflexivity].
    apply memb_In in E2. apply In_others in E2. destruct E2 as [_ E2]. congruence.
  - apply memb_In. apply In_others. split; [lia|assumption].
Qed.

(* reduce_dims(exclude = the modes that are not summed) removes exactly the summed positions *)
Lemma fullidx_sum_cores (x : tt R) : forall i index excl idx',
  (forall j, (i <= j < i + length x)%nat -> memb j excl = negb (memb j index)) ->
  fullidx i (sum_cores i x index) excl idx' = spread i (shape x) index idx' /\
  nkept i (sum_cores i x index) excl = length (keep_pos i (shape x) index).
Proof.
  induction x as [|c cs IH]; intros i index excl idx' H; [split; reflexivity|].
  cbn [sum_cores fullidx nkept spread shape map keep_pos]. fold (shape cs).
  assert (He : memb i excl = negb (memb i index)) by (apply H; simpl; lia).
  assert (Hrest : forall j, (S i <= j < S i + length cs)%nat -> memb j excl = negb (memb j index)) by (intros j Hj; apply H; simpl; lia).
  unfold keptb. destruct (memb i index) eqn:Em.
  - cbn [nn sum_core]. rewrite He. cbn [negb andb Nat.eqb].
    destruct (IH (S i) index excl idx' Hrest) as [H1 H2]. rewrite H1, H2. split; reflexivity.
  - rewrite He. cbn [negb]. rewrite andb_false_r. cbn [negb].
    destruct (IH (S i) index excl (tl idx') Hrest) as [H1 H2]. rewrite H1, H2. split; [reflexivity|].
    rewrite app_length. reflexivity.
Qed.

(* x.sum(index) with at least one mode left: value and positions of the dense reduction over the listed modes *)
Theorem sum_modes_full (x : tt R) index idx' :
  (0 < length (keep_pos 0 (shape x) index))%nat -> length idx' = length (keep_pos 0 (shape x) index) ->
  entry (sum_modes x index) idx' = dsum_rec 0 (shape x) index (entry x) idx'.
Proof.
  intros Hk Hl. unfold sum_modes.
  assert (Hm : forall j, (0 <= j < 0 + length x)%nat -> memb j (others 0 (length x) index) = negb (memb j index)).
  { intros j Hj. apply memb_others. lia. }
  destruct (fullidx_sum_cores x 0 index (others 0 (length x) index) idx' Hm) as [H1 H2].
  rewrite reduce_dims_full by (rewrite H2; assumption).
  rewrite H1. unfold entry. rewrite sum_cores_chain by (rewrite spread_length; unfold shape; apply map_length).
  apply (sumsel_spread (shape x) 0 index (fun idx2 => chainM (slices x idx2) 0%nat 0%nat) idx'). exact Hl.
Qed.

End SumModesP.

(* ---- dot(a, b, axis): b embedded into the shape of a (identity cores on the modes that are not contracted) ---- *)
Section DotAxisP.
Context {R : Type} {RO : RingOps R} {RL : RingLaws R}.
Add Ring Rr16 : Rth.
Open Scope R_scope.
Arguments chainM : simpl never.

Lemma conj_core_slices (b : tt R) : forall idx, slices (map conj_core b) idx = conjL (slices b idx).
Proof. induction b as [|c bt IH]; intros [|i it]; simpl; auto. rewrite IH. reflexivity. Qed.

Lemma take_pos_length {A B} (l : list A) (l' : list B) : forall i axis, length l = length l' ->
  length (take_pos i l axis) = length (take_pos i l' axis).
Proof.
  revert l'. induction l as [|a t IH]; intros [|b t'] i axis H; simpl in H; try discriminate; [reflexivity|].
  cbn [take_pos]. rewrite !app_length. rewrite (IH t' (S i) axis) by lia. destruct (memb i axis); reflexivity.
Qed.

Lemma embed_chain ns : forall i (b : tt R) axis rl idx p q,
  length idx = length ns -> chained rl b -> length b = length (take_pos i ns axis) -> (p < rl)%nat ->
  chainM (slices (embed i ns b axis rl) idx) p q = chainM (conjL (slices b (take_pos i idx axis))) p q.
Proof.
  induction ns as [|n nt IH]; intros i b axis rl [|j jt] p q Hl Hc Hb Hp; simpl in Hl; try discriminate.
  - simpl in Hb. destruct b; [reflexivity|discriminate].
  - cbn [embed take_pos] in *. destruct (memb i axis) eqn:Em.
    + destruct b as [|c bt]; [simpl in Hb; discriminate|]. simpl in Hc. destruct Hc as [E0 Hc].
      cbn [app slices conjL map fst snd]. rewrite !chainM_cons. cbn [r1 conj_core e3 fst snd].
      apply sum_n_ext. intros a Ha. f_equal.
      apply IH; auto; simpl in Hb; lia.
    + cbn [app] in *. cbn [slices]. rewrite chainM_cons. cbn [r1 e3].
      set (rr := if memb (S i) axis then match b with c :: _ => r0 c | [] => rl end else rl).
      assert (Hrr : rr = rl).
      { unfold rr. destruct (memb (S i) axis); [|reflexivity]. destruct b as [|c bt]; [reflexivity|]. simpl in Hc. tauto. }
      rewrite Hrr. change (sum_n rl (fun l => delta p l * chainM (slices (embed (S i) nt b axis rl) jt) l q))
        with (mmul rl Id (chainM (slices (embed (S i) nt b axis rl) jt)) p q).
      rewrite mmul_Id_l by assumption. apply IH; auto.
Qed.

Lemma embed_chained ns : forall i (b : tt R) axis rl, chained rl b -> length b = length (take_pos i ns axis) ->
  chained rl (embed i ns b axis rl ++ []) /\ True.
Proof. intros. split; [|exact I]. rewrite app_nil_r. revert i b axis rl H H0.
  induction ns as [|n nt IH]; intros i b axis rl Hc Hb; cbn [embed take_pos] in *.
  - simpl in Hb. destruct b; [exact Hc|discriminate].
  - destruct (memb i axis) eqn:Em.
    + destruct b as [|c bt]; [simpl in Hb; discriminate|]. simpl in Hc. destruct Hc as [E0 Hc].
      cbn [chained r0 r1 conj_core]. split; [exact E0|]. apply IH; auto; simpl in Hb; lia.
    + cbn [app] in Hb. cbn [chained r0 r1]. split; [reflexivity|].
      assert (Hrr : (if memb (S i) axis then match b with c :: _ => r0 c | [] => rl end else rl) = rl).
      { destruct (memb (S i) axis); [|reflexivity]. destruct b as [|c bt]; [reflexivity|]. simpl in Hc. tauto. }
      rewrite Hrr. apply IH; auto.
Qed.
Lemma embed_length ns : forall i (b : tt R) axis rl, length b = length (take_pos i ns axis) -> length (embed i ns b axis rl) = length ns.
Proof.
  induction ns as [|n nt IH]; intros i b axis rl Hb; cbn [embed take_pos] in *; [reflexivity|].
  destruct (memb i axis).
  - destruct b as [|c bt]; [simpl in Hb; discriminate|]. simpl. f_equal. apply IH; simpl in Hb; lia.
  - simpl. f_equal. apply IH. exact Hb.
Qed.

(* dot(a, b, axis): the modes listed in axis are contracted with conj(b); value and positions of the dense contraction *)
Theorem dot_axis_full (a b : tt R) axis idx' :
  wf a -> wf b -> length b = length (take_pos 0 (shape a) axis) ->
  (0 < length (keep_pos 0 (shape a) axis))%nat -> length idx' = length (keep_pos 0 (shape a) axis) ->
  entry (dot_axis a b axis) idx' =
    dsum_rec 0 (shape a) axis (fun idx => entry a idx * rconj (entry b (take_pos 0 idx axis))) idx'.
Proof.
  intros Ha Hb Hlb Hk Hl. unfold dot_axis.
  set (E := embed 0 (shape a) b axis 1).
  assert (HlE : length E = length a) by (unfold E; rewrite embed_length by assumption; apply map_length).
  assert (HwE : wf E).
  { split.
    - intros H0. rewrite H0 in HlE. destruct Ha as [Hn _]. destruct a; [congruence|discriminate].
    - destruct (embed_chained (shape a) 0 b axis 1 (proj2 Hb) Hlb) as [H _]. rewrite app_nil_r in H. exact H. }
  assert (Hsh : shape (mul a E) = shape a) by (apply mul_shape; assumption).
  rewrite sum_modes_full by (rewrite Hsh; assumption). rewrite Hsh.
  (* pointwise under the reduction *)
  assert (Hext : forall ns i f g idx0, (forall t, length t = length ns -> f t = g t) -> dsum_rec i ns axis f idx0 = dsum_rec i ns axis g idx0).
  { induction ns as [|n nt IHn]; intros i f g idx0 H; cbn [dsum_rec]; [apply H; reflexivity|].
    destruct (memb i axis).
    - apply sum_n_ext. intros k _. apply IHn. intros t Ht. apply H. simpl. lia.
    - destruct idx0 as [|k kt]; [reflexivity|]. apply IHn. intros t Ht. apply H. simpl. lia. }
  apply Hext. intros t Ht. unfold shape in Ht. rewrite map_length in Ht.
  rewrite mul_full by (auto; lia). f_equal.
  unfold entry, E. rewrite embed_chain; auto; try lia.
  - apply chainM_conj.
  - unfold shape. rewrite map_length. exact Ht.
  - exact (proj2 Hb).
Qed.
End DotAxisP.
