(* sum(index) and dot(a, b, axis): the keep-dim core sums followed by reduce_dims equal the dense reductions (C07). *)
From Coq Require Import List Arith Lia Ring Bool.
From TT Require Import RingSig SumN Mat Dense Core CoreP Arith ArithP MatOps Reduce ReduceP ReduceDimsP.
Import ListNotations.

Section SumModesP.
Context {R : Type} {RO : RingOps R} {RL : RingLaws R}.
Add Ring Rr12 : Rth.
Open Scope R_scope.

Arguments chainM : simpl never.

(* sum over the positions listed in index of a function of the full index; the entries of idx at those positions are ignored *)
Fixpoint sumsel (i : nat) (ns index : list nat) (f : list nat -> R) (idx : list nat) : R :=
  match ns, idx with
  | n :: nt, j :: jt =>
      if memb i index then sum_n n (fun k => sumsel (S i) nt index (fun t => f (k :: t)) jt)
      else sumsel (S i) nt index (fun t => f (j :: t)) jt
  | _, _ => f []
  end.

Lemma sumsel_ext ns : forall i index f g idx, (forall t, f t = g t) -> sumsel i ns index f idx = sumsel i ns index g idx.
Proof.
  induction ns as [|n nt IH]; intros i index f g idx H; [apply H|].
  destruct idx as [|j jt]; [apply H|]. cbn [sumsel]. destruct (memb i index).
  - apply sum_n_ext. intros k _. apply IH. intros t. apply H.
  - apply IH. intros t. apply H.
Qed.
Lemma sumsel_scal_l ns : forall i index c f idx, length idx = length ns ->
  sumsel i ns index (fun t => c * f t) idx = c * sumsel i ns index f idx.
Proof.
  induction ns as [|n nt IH]; intros i index c f [|j jt] Hl; simpl in Hl; try discriminate; [reflexivity|].
  cbn [sumsel]. destruct (memb i index).
  - rewrite <- sum_n_scal_l. apply sum_n_ext. intros k _. apply IH. lia.
  - apply IH. lia.
Qed.
Lemma sumsel_sum_n ns : forall i index m (F : nat -> list nat -> R) idx, length idx = length ns ->
  sumsel i ns index (fun t => sum_n m (fun a => F a t)) idx = sum_n m (fun a => sumsel i ns index (F a) idx).
Proof.
  induction ns as [|n nt IH]; intros i index m F [|j jt] Hl; simpl in Hl; try discriminate; [reflexivity|].
  cbn [sumsel]. destruct (memb i index).
  - rewrite sum_n_swap. apply sum_n_ext. intros k _. apply (IH (S i) index m (fun a t => F a (k :: t))). lia.
  - apply (IH (S i) index m (fun a t => F a (j :: t))). lia.
Qed.

(* the cores after the keep-dim sums *)
Lemma sum_cores_chain (x : tt R) : forall i index idx p q, length idx = length x ->
  chainM (slices (sum_cores i x index) idx) p q =
  sumsel i (shape x) index (fun idx2 => chainM (slices x idx2) p q) idx.
Proof.
  induction x as [|c cs IH]; intros i index [|j jt] p q Hl; simpl in Hl; try discriminate; [reflexivity|].
  cbn [sum_cores slices shape map sumsel]. fold (shape cs).
  destruct (memb i index) eqn:Em.
  - rewrite chainM_cons. cbn [r1 sum_core e3].
    rewrite (sum_n_ext _ _ (fun a => sum_n (nn c) (fun k =>
       sumsel (S i) (shape cs) index (fun t => e3 c p k a * chainM (slices cs t) a q) jt))).
    2:{ intros a _. rewrite IH by lia. rewrite <- sum_n_scal_r. apply sum_n_ext. intros k _.
        rewrite <- sumsel_scal_l by (unfold shape; rewrite map_length; lia). reflexivity. }
    rewrite sum_n_swap. apply sum_n_ext. intros k _.
    rewrite <- (sumsel_sum_n (shape cs) (S i) index (r1 c) (fun a t => e3 c p k a * chainM (slices cs t) a q))
      by (unfold shape; rewrite map_length; lia).
    apply sumsel_ext. intros t. cbn [slices]. rewrite chainM_cons. reflexivity.
  - rewrite chainM_cons.
    rewrite (sum_n_ext _ _ (fun a => sumsel (S i) (shape cs) index (fun t => e3 c p j a * chainM (slices cs t) a q) jt)).
    2:{ intros a _. rewrite IH by lia. rewrite <- sumsel_scal_l by (unfold shape; rewrite map_length; lia). reflexivity. }
    rewrite <- (sumsel_sum_n (shape cs) (S i) index (r1 c) (fun a t => e3 c p j a * chainM (slices cs t) a q))
      by (unfold shape; rewrite map_length; lia).
    apply sumsel_ext. intros t. cbn [slices]. rewrite chainM_cons. reflexivity.
Qed.

(* the full index that reduce_dims reads: 0 on the summed positions, the given indices elsewhere *)
Fixpoint spread (i : nat) (ns index idx' : list nat) : list nat :=
  match ns with
  | [] => []
  | _ :: nt => if memb i index then O :: spread (S i) nt index idx' else hd O idx' :: spread (S i) nt index (tl idx')
  end.
Lemma spread_length ns : forall i index idx', length (spread i ns index idx') = length ns.
Proof. induction ns; intros; simpl; [reflexivity|]. destruct (memb i index); simpl; rewrite IHns; reflexivity. Qed.

Lemma sumsel_spread ns : forall i index f idx', length idx' = length (keep_pos i ns index) ->
  sumsel i ns index f (spread i ns index idx') = dsum_rec i ns index f idx'.
Proof.
  induction ns as [|n nt IH]; intros i index f idx' Hl; [reflexivity|].
  cbn [spread sumsel dsum_rec keep_pos] in *. destruct (memb i index) eqn:Em; cbn [app] in Hl.
  - apply sum_n_ext. intros k _. apply IH. exact Hl.
  - destruct idx' as [|k kt]; [simpl in Hl; discriminate|]. cbn [hd tl]. apply IH. simpl in Hl. lia.
Qed.

Lemma memb_In j l : memb j l = true <-> In j l.
Proof.
  unfold memb. rewrite existsb_exists. split.
  - intros [x [Hx E]]. apply Nat.eqb_eq in E. subst. assumption.
  - intros H. exists j. split; [assumption|apply Nat.eqb_refl].
Qed.
Lemma In_others j : forall n i index, In j (others i n index) <-> (i <= j < i + n)%nat /\ memb j index = false.
Proof.
  induction n as [|n IH]; intros i index; cbn [others].
  - simpl. split; [tauto|intros [H _]; lia].
  - rewrite in_app_iff, IH. destruct (memb i index) eqn:Ei; simpl.
    + split.
      * intros [[]|[H1 H2]]. split; [lia|assumption].
      * intros [H1 H2]. right. split; [|assumption]. destruct (Nat.eq_dec j i) as [->|Hne]; [congruence|lia].
    + split.
      * intros [[->|[]]|[H1 H2]]; split; try lia; assumption.
      * intros [H1 H2]. destruct (Nat.eq_dec i j) as [->|Hne]; [left; left; reflexivity|right; split; [lia|assumption]].
Qed.
Lemma memb_others j n index : (j < n)%nat -> memb j (others 0 n index) = negb (memb j index).
Proof.
  intros Hj. destruct (memb j index) eqn:E; simpl.
  - destruct (memb j (others 0 n index)) eqn:E2; [|reflexivity].
    apply memb_In in E2. apply In_others in E2. destruct E2 as [_ E2]. congruence.
  - apply memb_In. apply In_others. split; [lia|assumption].
Qed.

(* reduce_dims(exclude = the modes that are not summed) removes exactly the summed positions *)
Lemma fullidx_sum_cores (x : tt R) : forall i index excl idx',
  (forall j, (i <= j < i + length x)%nat -> memb j excl = negb (memb j index)) ->
  fullidx i (sum_cores i x index) excl idx' = spread i (shape x) index idx' /\
  nkept i (sum_cores i x index) excl = length (keep_pos i (shape x) index).
Proof.
  induction x as [|c cs IH]; intros i index excl idx' H; [split; reflexivity|].
  cbn [sum_cores fullidx nkept spread shape map keep_pos]. fold (shape cs).
  assert (He : memb i excl = negb (memb i index)) by (apply H; simpl; lia).
  assert (Hrest : forall j, (S i <= j < S i + length cs)%nat -> memb j excl = negb (memb j index)) by (intros j Hj; apply H; simpl; lia).
  unfold keptb. destruct (memb i index) eqn:Em.
  - cbn [nn sum_core]. rewrite He. cbn [negb andb Nat.eqb].
    destruct (IH (S i) index excl idx' Hrest) as [H1 H2]. rewrite H1, H2. split; reflexivity.
  - rewrite He. cbn [negb]. rewrite andb_false_r. cbn [negb].
    destruct (IH (S i) index excl (tl idx') Hrest) as [H1 H2]. rewrite H1, H2. split; [reflexivity|].
    rewrite app_length. reflexivity.
Qed.

(* x.sum(index) with at least one mode left: value and positions of the dense reduction over the listed modes *)
Theorem sum_modes_full (x : tt R) index idx' :
  (0 < length (keep_pos 0 (shape x) index))%nat -> length idx' = length (keep_pos 0 (shape x) index) ->
  entry (sum_modes x index) idx' = dsum_rec 0 (shape x) index (entry x) idx'.
Proof.
  intros Hk Hl. unfold sum_modes.
  assert (Hm : forall j, (0 <= j < 0 + length x)%nat -> memb j (others 0 (length x) index) = negb (memb j index)).
  { intros j Hj. apply memb_others. lia. }
  destruct (fullidx_sum_cores x 0 index (others 0 (length x) index) idx' Hm) as [H1 H2].
  rewrite reduce_dims_full by (rewrite H2; assumption).
  rewrite H1. unfold entry. rewrite sum_cores_chain by (rewrite spread_length; unfold shape; apply map_length).
  apply (sumsel_spread (shape x) 0 index (fun idx2 => chainM (slices x idx2) 0%nat 0%nat) idx'). exact Hl.
Qed.

End SumModesP.
