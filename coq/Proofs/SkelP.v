(* Proofs for Model/Skel.v *)
From Coq Require Import List Arith Lia Bool.
From TT Require Import OrdRing RankChop RankChopP Skel.
Import ListNotations.

Lemma search_down_spec ok : forall r, 1 <= r ->
  let s := search_down ok r in
  1 <= s <= r /\ (forall j, s < j <= r -> ok j = true) /\ (ok s = false \/ s = 1).
Proof.
  induction r as [|r IH]; intros Hr; [lia|]. cbn zeta. cbn [search_down].
  destruct (ok (S r)) eqn:E.
  - destruct r as [|r'].
    + repeat split; try lia.
    + specialize (IH ltac:(lia)). cbn zeta in IH. destruct IH as [H1 [H2 H3]]. repeat split; try lia.
      * intros j Hj. destruct (Nat.eq_dec j (S (S r'))) as [->|Hne]; [assumption|]. apply H2. lia.
      * assumption.
  - repeat split; try lia. left. assumption.
Qed.

(* the rank returned by the residual-driven search: within 1..n; every larger candidate below n has a small residual;
   the rank just below the returned one does not (unless the search ran down to the bottom) *)
Theorem rank_search_spec ok n : 1 <= n ->
  let r := rank_search ok n in
  1 <= r <= n /\ (forall j, r <= j < n -> ok j = true) /\ (r <= 2 \/ ok (r - 1) = false).
Proof.
  intros Hn. unfold rank_search. destruct n as [|[|n']]; [lia| |].
  - cbn zeta. repeat split; try lia.
  - cbn zeta. destruct (search_down_spec ok (S n') ltac:(lia)) as [H1 [H2 H3]]. cbn zeta in *.
    repeat split; try lia.
    + intros j Hj. apply H2. lia.
    + destruct H3 as [H3|H3]; [right|left; lia]. rewrite Nat.sub_succ, Nat.sub_0_r. assumption.
Qed.
Theorem clamp_rank_le r n rmax : clamp_rank r n rmax <= r /\ clamp_rank r n rmax <= n /\ clamp_rank r n rmax <= rmax.
Proof. unfold clamp_rank. lia. Qed.

Section DmrgP.
Context {T : Type} {OO : OrdOps T} {OL : OrdLaws T}.
(* final sweep: per-bond allowance eps/sqrt(d) of the supercore norm; over the d-1 bonds the allowances stay below eps^2 *)
Theorem dmrg_last_allowance d (q : list T) pos eps2 : q <> [] -> Forall (ole oz) q -> ole oz eps2 ->
  let r := rank_chop (map (omul (ofnat d)) q) pos (omul eps2 (sumT q)) in
  ole (omul (ofnat d) (discarded q r)) (omul eps2 (sumT q)).
Proof. exact (bond_allowance d q pos eps2). Qed.
Theorem dmrg_bond_rank_le d last (q : list T) pos eps2 rmax : q <> [] ->
  (dmrg_bond_rank d last q pos eps2 rmax <= length q)%nat /\ (dmrg_bond_rank d last q pos eps2 rmax <= rmax)%nat.
Proof.
  intros Hq. unfold dmrg_bond_rank.
  pose proof (rank_chop_range (map (omul (ofnat (if last then d else d * d * d))) q) pos (omul eps2 (sumT q))) as H.
  rewrite map_length in H. specialize (H ltac:(destruct q; [congruence|discriminate])). lia.
Qed.
End DmrgP.
