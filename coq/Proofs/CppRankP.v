(* The C++ rank selection loop agrees with the (repaired) Python rule for every spectrum and every positive eps (C17). *)
From Coq Require Import List Arith Lia Bool ZArith.
From TT Require Import OrdRing RankChop RankChopP CppRank.
Import ListNotations.
Open Scope Z_scope.

Definition tailZ (q : list Z) (k : nat) : Z := sumT (skipn k q).

Lemma cpp_loop_spec q thr2 : forall r,
  let s := cpp_loop q thr2 r in
  (s <= r)%nat /\ (s = 0%nat \/ thr2 <= tailZ q s) /\ (forall j, (s < j <= r)%nat -> tailZ q j < thr2).
Proof.
  induction r as [|r IH]; cbn zeta; cbn [cpp_loop].
  - split; [lia|split; [left; reflexivity|intros j Hj; lia]].
  - destruct (Z.leb_spec thr2 (sumT (skipn (S r) q))) as [H|H].
    + split; [lia|split; [right; exact H|intros j Hj; lia]].
    + destruct IH as [H1 [H2 H3]]. split; [lia|split; [exact H2|]].
      intros j Hj. destruct (Nat.eq_dec j (S r)) as [->|Hne]; [exact H|apply H3; lia].
Qed.

Lemma tailZ_mono q : Forall (ole oz) q -> forall j k, (j <= k)%nat -> tailZ q k <= tailZ q j.
Proof.
  intros Hq j k Hjk. induction Hjk; [lia|].
  pose proof (skip_mono q m Hq) as H. unfold ole in H.
  change (Z.leb (sumT (skipn (S m) q)) (sumT (skipn m q)) = true) in H. apply Z.leb_le in H. unfold tailZ in *. lia.
Qed.

Theorem cpp_py_rank_agree (q : list Z) thr2 : q <> [] -> Forall (ole oz) q ->
  cpp_rank_chop q true thr2 = rank_chop q true thr2.
Proof.
  intros Hne Hq. unfold cpp_rank_chop, rank_chop. cbn [oleb ZOrdOps oz negb].
  destruct (Z.leb (sumT q) 0) eqn:Ez; [reflexivity|].
  set (n := length q). assert (Hn : (1 <= n)%nat) by (unfold n; destruct q; [congruence|simpl; lia]).
  destruct (cpp_loop_spec q thr2 (n - 1)) as [C1 [C2 C3]]. cbn zeta in *.
  set (s := cpp_loop q thr2 (n - 1)) in *.
  replace (if (0 <? S s)%nat then S s else 1%nat) with (S s) by reflexivity.
  rewrite (tails_last q 0 Hne). fold n. fold (tailZ q (n - 1)).
  destruct (Z.leb_spec thr2 (tailZ q (n - 1))) as [Hlast|Hlast].
  - (* the smallest singular value alone reaches the threshold: every value is kept *)
    destruct (Nat.eq_dec n 1) as [E1|E1].
    + rewrite E1 in *. assert (s = 0%nat) by lia. lia.
    + destruct (Nat.lt_ge_cases s (n - 1)) as [Hlt|Hge]; [|lia].
      specialize (C3 (n - 1)%nat ltac:(lia)). lia.
  - destruct (find_first (fun v => oltb v thr2) (tails q)) as [k|] eqn:F.
    + destruct (find_first_some _ _ _ 0 F) as [F1 [F2 F3]]. rewrite tails_length in F1. fold n in F1.
      rewrite tails_nth in F2 by assumption. unfold oltb in F2. cbn in F2. apply negb_true_iff, Z.leb_gt in F2. fold (tailZ q k) in F2.
      assert (Hs : s = (k - 1)%nat).
      { destruct C2 as [C2|C2].
        - (* the loop ran down to 0: every tail from 1 on is below the threshold, so k <= 1 *)
          destruct (Nat.le_gt_cases k 1) as [Hk|Hk]; [lia|].
          specialize (F3 (k - 1)%nat ltac:(lia)). rewrite tails_nth in F3 by lia.
          unfold oltb in F3. cbn in F3. apply negb_false_iff, Z.leb_le in F3.
          specialize (C3 (k - 1)%nat ltac:(lia)). unfold tailZ in C3. lia.
        - destruct (Nat.lt_trichotomy s (k - 1)) as [Hlt|[He|Hgt]]; [|exact He|].
          + (* k-1 is a later candidate that the loop must have accepted *)
            specialize (C3 (k - 1)%nat ltac:(lia)).
            specialize (F3 (k - 1)%nat ltac:(lia)). rewrite tails_nth in F3 by lia.
            unfold oltb in F3. cbn in F3. apply negb_false_iff, Z.leb_le in F3. unfold tailZ in C3. lia.
          + (* s >= k: tail(s) <= tail(k) < thr2, contradiction with the break condition *)
            pose proof (tailZ_mono q Hq k s ltac:(lia)). lia. }
      rewrite Hs. destruct (Nat.eqb_spec k 0); lia.
    + exfalso. pose proof (find_first_none _ _ 0 F (n - 1)%nat) as H. rewrite tails_length in H. fold n in H.
      specialize (H ltac:(lia)). rewrite tails_nth in H by (fold n; lia).
      unfold oltb in H. cbn in H. apply negb_false_iff, Z.leb_le in H. unfold tailZ in Hlast. lia.
Qed.

Lemma dispatch_matvec_spec have use d : (dispatch_matvec have use d = BCpp 0 <-> have = true /\ use = true /\ (2 <= d)%nat) /\
  (dispatch_matvec have use d <> BCpp 0 -> dispatch_matvec have use d = BPython) /\ dispatch_matvec have use 1%nat = BPython.
Proof.
  unfold dispatch_matvec. split; [|split].
  - destruct have, use; cbn [andb]; try (split; [discriminate|intros [H1 [H2 _]]; discriminate]).
    destruct (Nat.ltb_spec 1 d) as [H|H]; split.
    + intros _. repeat split; exact H.
    + intros _. reflexivity.
    + discriminate.
    + intros [_ [_ H2]]. exfalso. apply (Nat.lt_irrefl 1). apply Nat.lt_le_trans with d; [exact H2|exact H].
  - destruct (have && use && Nat.ltb 1 d); [intros H; exfalso; apply H; reflexivity|reflexivity].
  - rewrite andb_false_r. reflexivity.
Qed.
