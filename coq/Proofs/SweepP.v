(* The error of the TT-SVD sweep is exactly the sum of the energies discarded at the bonds (C01, C02). *)
From Coq Require Import List Arith Lia Ring Bool.
From TT Require Import RingSig SumN Mat FrobP Sweep.
Import ListNotations.

Section SweepP.
Context {R : Type} {RO : RingOps R} {RL : RingLaws R}.
Add Ring Rr14 : Rth.
Open Scope R_scope.

Definition orth_stages (ss : list (stage R)) : Prop := Forall (fun s => orth (sm s) (sr s) (sU s)) ss.

(* energy discarded at one bond: || C - U U^H C ||^2 *)
Definition stage_disc (s : stage R) (C : mat R) : R :=
  frob2 (sm s) (sn s * sq s) (msub C (mmul (sr s) (sU s) (stage_B s C))).
Fixpoint disc_total (ss : list (stage R)) (C : mat R) : R :=
  match ss with
  | [] => 0
  | s :: rest => stage_disc s C + disc_total rest (stage_next s C)
  end.

Lemma adjm_adj (A : mat R) : adjm A = adj A. Proof. reflexivity. Qed.

Lemma reshape_unreshape n q (X : mat R) row c : (0 < n)%nat -> (0 < q)%nat -> (c < q)%nat -> (row mod n < n)%nat ->
  reshape_rows_m n q (unreshape_rows n q X) row c = X row c.
Proof.
  intros Hn Hq Hc _. unfold reshape_rows_m, unreshape_rows.
  replace ((row mod n * q + c) / q)%nat with (row mod n)%nat.
  2:{ rewrite Nat.div_add_l by lia. rewrite Nat.div_small by lia. lia. }
  replace ((row mod n * q + c) mod q)%nat with c.
  2:{ rewrite Nat.add_comm, Nat.mod_add by lia. rewrite Nat.mod_small; lia. }
  rewrite (Nat.mul_comm (row / n) n). rewrite <- Nat.div_mod by lia. reflexivity.
Qed.

Lemma frob2_ext m n X X' : (forall i j, (i < m)%nat -> (j < n)%nat -> X i j = X' i j) -> frob2 m n X = frob2 m n X'.
Proof. intros H. unfold frob2. apply ip_ext; assumption. Qed.

(* the error of the whole sweep = the sum of the discarded energies of the bonds *)
Theorem sweep_error_eq (ss : list (stage R)) : forall C, stages_ok ss -> orth_stages ss ->
  match ss with
  | [] => True
  | s :: _ => frob2 (sm s) (sn s * sq s) (msub C (approx ss C)) = disc_total ss C
  end.
Proof.
  induction ss as [|s rest IH]; intros C Hok Horth; [exact I|].
  destruct Hok as [Hn [Hq [Hdim Hok']]]. inversion Horth as [|? ? HU Horth']; subst.
  cbn [approx disc_total].
  set (Bh := unreshape_rows (sn s) (sq s) (approx rest (stage_next s C))).
  pose proof (stage_error (sm s) (sr s) (sn s * sq s) (sU s) C Bh HU) as Hst. cbn zeta in Hst.
  change (mmul (sm s) (adj (sU s)) C) with (stage_B s C) in Hst.
  rewrite Hst. unfold stage_disc. f_equal.
  (* || B - Bh || over r x (n q)  =  || C' - approx rest C' || over (r n) x q *)
  rewrite <- (frob2_reshape (sr s) (sn s) (sq s) (msub (stage_B s C) Bh)) by assumption.
  destruct rest as [|s' rest'].
  - (* last bond: nothing is approximated further *)
    cbn [disc_total]. unfold frob2, ip. apply sum_n_zero'. intros i Hi. apply sum_n_zero'. intros j Hj.
    assert (E : reshape_rows (sn s) (sq s) (msub (stage_B s C) Bh) i j = 0).
    { change (reshape_rows (sn s) (sq s) (msub (stage_B s C) Bh) i j)
        with (stage_next s C i j - reshape_rows_m (sn s) (sq s) Bh i j).
      unfold Bh. rewrite reshape_unreshape by (try assumption; apply Nat.mod_upper_bound; lia).
      cbn [approx]. ring. }
    rewrite E, conj_0. ring.
  - destruct Hdim as [Hm Hqq].
    specialize (IH (stage_next s C) Hok' Horth'). cbn beta iota in IH.
    rewrite Hm in IH at 1. rewrite <- Hqq in IH at 1. rewrite <- IH.
    apply frob2_ext. intros i j Hi Hj.
    change (reshape_rows (sn s) (sq s) (msub (stage_B s C) Bh) i j)
      with (stage_next s C i j - reshape_rows_m (sn s) (sq s) Bh i j).
    unfold Bh. rewrite reshape_unreshape by (try assumption; apply Nat.mod_upper_bound; lia).
    reflexivity.
Qed.

(* Pythagoras at a bond: the energy of the remainder splits into the discarded part and the energy passed on *)
Theorem stage_energy (s : stage R) C : orth (sm s) (sr s) (sU s) -> (0 < sn s)%nat ->
  frob2 (sm s) (sn s * sq s) C = stage_disc s C + frob2 (sr s * sn s) (sq s) (stage_next s C).
Proof.
  intros HU Hn. unfold stage_disc, stage_next.
  change (reshape_rows_m (sn s) (sq s) (stage_B s C)) with (reshape_rows (sn s) (sq s) (stage_B s C)).
  rewrite frob2_reshape by assumption. apply (stage_pythagoras (sm s) (sr s) (sn s * sq s) (sU s) C HU).
Qed.

End SweepP.

(* ---- composition with the rank rule: the error bound of the TT-SVD ---- *)
From TT Require Import OrdRing RankChop RankChopP.

Section SweepBound.
Context {R : Type} {RO : RingOps R} {RL : RingLaws R}.
Variable leb : R -> R -> bool.
#[local] Instance OO_of_ring : OrdOps R := {| oz := rO; oone := rI; oadd := radd; omul := rmul; oleb := leb |}.
Context {OL : OrdLaws R}.
Add Ring Rr15 : Rth.
Open Scope R_scope.

(* what an exact truncated SVD provides at every bond: the squared singular values q of the remainder carry its energy, and the
   energy outside the kept left singular vectors is the tail of q *)
Fixpoint spectrum_link (ss : list (stage R)) (qs : list (list R)) (C : mat R) : Prop :=
  match ss, qs with
  | s :: rest, q :: qt =>
      frob2 (sm s) (sn s * sq s) C = sumT q /\ stage_disc s C = discarded q (sr s) /\ spectrum_link rest qt (stage_next s C)
  | [], [] => True
  | _, _ => False
  end.

Lemma kept_plus_discarded (q : list R) : forall r, kept q r + discarded q r = sumT q.
Proof.
  unfold kept, discarded. induction q as [|x t IH]; intros [|r]; simpl; try ring.
  change (oadd x (sumT (firstn r t)) + sumT (skipn r t) = oadd x (sumT t)).
  change (oadd x (sumT (firstn r t))) with (x + sumT (firstn r t)). change (oadd x (sumT t)) with (x + sumT t).
  rewrite <- (IH r). ring.
Qed.

Lemma link_disc ss : forall qs C, spectrum_link ss qs C -> disc_total ss C = sweep_discarded qs (map (@sr R) ss).
Proof.
  induction ss as [|s rest IH]; intros [|q qt] C H; simpl in H; try contradiction; [reflexivity|].
  destruct H as [_ [H2 H3]]. cbn [disc_total map sweep_discarded]. rewrite H2, (IH qt _ H3). reflexivity.
Qed.

Lemma link_chain ss : forall qs C, stages_ok ss -> orth_stages ss -> spectrum_link ss qs C ->
  energy_chain qs (map (@sr R) ss).
Proof.
  induction ss as [|s rest IH]; intros [|q qt] C Hok Hor H; simpl in H; try contradiction; [exact I|].
  destruct H as [H1 [H2 H3]]. destruct Hok as [Hn [Hq [Hdim Hok']]]. inversion Hor as [|? ? HU Hor']; subst.
  destruct rest as [|s' rest']; destruct qt as [|q' qt']; simpl in H3; try contradiction.
  - cbn [map energy_chain]. exact I.
  - cbn [map energy_chain]. destruct H3 as [H3a H3]. destruct Hdim as [Hm Hqq]. split.
    + (* sumT q' = kept q r: Pythagoras at the bond and kept + discarded = total *)
      pose proof (stage_energy s C HU Hn) as He. rewrite H1, H2 in He.
      assert (Hx : frob2 (sr s * sn s) (sq s) (stage_next s C) = sumT q').
      { rewrite <- Hm, Hqq. exact H3a. }
      rewrite Hx in He. pose proof (kept_plus_discarded q (sr s)) as Hk.
      transitivity (sumT q - discarded q (sr s)); [rewrite He; ring|rewrite <- Hk; ring].
    + apply (IH (q' :: qt') (stage_next s C) Hok' Hor').
      simpl. split; [exact H3a|exact H3].
Qed.

(* THE ERROR BOUND.  For any number of bonds, any mode sizes and any input C: if every bond keeps the rank selected by rank_chop
   with the threshold eps/sqrt(dm1) * ||remainder|| (no rmax binding) and the factors are those of exact SVDs, then
   dm1 * || C - reconstruction ||^2  <=  #bonds * eps^2 * || C ||^2   (for #bonds = dm1 = d-1:  error <= eps * ||C||) *)
Theorem tt_svd_error_bound dm1 pos eps2 (ss : list (stage R)) (qs : list (list R)) (C : mat R) s0 st :
  ss = s0 :: st -> stages_ok ss -> orth_stages ss -> spectrum_link ss qs C ->
  Forall (fun q => q <> [] /\ Forall (ole oz) q) qs -> ole oz eps2 ->
  unbounded_ranks dm1 pos eps2 qs (map (@sr R) ss) ->
  ole (omul (ofnat dm1) (frob2 (sm s0) (sn s0 * sq s0) (msub C (approx ss C))))
      (omul (ofnat (length ss)) (omul eps2 (frob2 (sm s0) (sn s0 * sq s0) C))).
Proof.
  intros E Hok Hor Hl Hq He Hr. subst ss.
  pose proof (sweep_error_eq (s0 :: st) C Hok Hor) as Heq. cbn beta iota in Heq. rewrite Heq. clear Heq.
  rewrite (link_disc (s0 :: st) qs C Hl).
  destruct qs as [|q1 qt]; [simpl in Hl; contradiction|].
  assert (Hlen : length (q1 :: qt) = length (s0 :: st)).
  { clear - Hl. revert C Hl. generalize (q1 :: qt). generalize (s0 :: st).
    induction l as [|s rest IH]; intros [|q l'] C H; simpl in H; try contradiction; [reflexivity|].
    destruct H as [_ [_ H]]. simpl. f_equal. eapply IH. exact H. }
  assert (H1 : frob2 (sm s0) (sn s0 * sq s0) C = sumT q1) by (simpl in Hl; tauto).
  rewrite H1, <- Hlen.
  apply (sweep_budget dm1 pos eps2 (q1 :: qt) (map (@sr R) (s0 :: st)) q1 qt eq_refl Hq He Hr).
  apply (link_chain (s0 :: st) (q1 :: qt) C Hok Hor Hl).
Qed.

End SweepBound.

(* non-vacuity: the 2 x 2 tensor diag(2, 1), eps^2 = 1 (integers): one bond, U = e_1, spectrum [4; 1]; every hypothesis of
   tt_svd_error_bound holds and the rank rule keeps one singular value *)
From Coq Require Import ZArith.
From TT Require Import Instances.
Example tt_svd_hypotheses_satisfiable :
  let C : mat Z := fun i j => if Nat.eqb i j then (if Nat.eqb i 0 then 2 else 1)%Z else 0%Z in
  let s := mkStage 2 1 2 1 (fun i j => if Nat.eqb i 0 then 1%Z else 0%Z) in
  stages_ok [s] /\ orth_stages [s] /\ spectrum_link Z.leb [s] [[4; 1]%Z] C /\
  unbounded_ranks (OO := OO_of_ring Z.leb) 1 true 1%Z [[4; 1]%Z] (map (@sr Z) [s]) /\
  frob2 2 2 (msub C (approx [s] C)) = 1%Z.
Proof.
  cbn zeta. split; [|split; [|split; [|split]]].
  - simpl. repeat split; lia.
  - constructor; [|constructor]. intros a b Ha Hb. simpl in Ha, Hb. assert (a = 0%nat) by lia. assert (b = 0%nat) by lia. subst. reflexivity.
  - simpl. repeat split; reflexivity.
  - constructor; [|constructor]. vm_compute. reflexivity.
  - vm_compute. reflexivity.
Qed.
