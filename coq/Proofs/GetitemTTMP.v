(* A[i1, ..., id, j1, ..., jd] for a TT matrix and a full tuple of integers (negative allowed): the scalar entry the dense operator has at that
   (row, column) multi-index - every order, mode sizes and rank profile (C08).  The loop gi_loop4 works on the merged row-column mode. *)
From Coq Require Import List Arith Lia Ring Bool ZArith.
From TT Require Import RingSig SumN Mat Dense Core CoreP Arith ArithP MatOps MatOpsP Reduce Struct StructP ReduceDimsP Index IndexP.
Import ListNotations.

Section GetitemTTMP.
Context {R : Type} {RO : RingOps R} {RL : RingLaws R}.
Add Ring Rr70 : Rth.
Open Scope R_scope.

Fixpoint norm_ints (ns : list nat) (zs : list Z) : option (list nat) :=
  match ns, zs with
  | [], [] => Some []
  | n :: nt, z :: zt => match norm_int n z, norm_ints nt zt with Some j, Some jt => Some (j :: jt) | _, _ => None end
  | _, _ => None
  end.
Fixpoint int_fs (x : ttm R) (is_ js : list nat) : list modemap :=
  match x, is_, js with
  | c :: ct, i :: it, j :: jt => (1%nat, fun _ : nat => Some (i * nm c + j)%nat) :: int_fs ct it jt
  | _, _, _ => []
  end.

Lemma norm_ints_length ns : forall zs js, norm_ints ns zs = Some js -> length zs = length ns /\ length js = length ns.
Proof.
  induction ns as [|n t IH]; intros [|z zt] js H; simpl in H; try discriminate.
  - inversion H. auto.
  - destruct (norm_int n z); [|discriminate]. destruct (norm_ints t zt) eqn:E; [|discriminate]. inversion H; subst.
    destruct (IH zt l E). simpl. auto.
Qed.
Lemma norm_ints_lt ns : forall zs js, norm_ints ns zs = Some js -> Forall2 lt js ns.
Proof.
  induction ns as [|n t IH]; intros [|z zt] js H; simpl in H; try discriminate.
  - inversion H. constructor.
  - destruct (norm_int n z) eqn:En; [|discriminate]. destruct (norm_ints t zt) eqn:E; [|discriminate]. inversion H; subst.
    constructor; [apply (norm_int_in_range n z n0 En)|apply (IH zt l E)].
Qed.

Lemma gi_loop4_ints (x : ttm R) : forall zs ws is_ js racc shp i excl,
  norm_ints (shapeM x) zs = Some is_ -> norm_ints (shapeN x) ws = Some js ->
  gi_loop4 (map IInt zs) (map IInt ws) x racc shp i excl
  = inr (rev racc ++ remaps (int_fs x is_ js) (flatM x), rev shp ++ repeat (1%nat, 1%nat) (length x), excl).
Proof.
  induction x as [|c ct IH]; intros zs ws is_ js racc shp i excl Hz Hw.
  - destruct zs; [|discriminate]. destruct ws; [|discriminate]. cbn. rewrite !app_nil_r. reflexivity.
  - destruct zs as [|z zt]; [discriminate|]. destruct ws as [|w wt]; [discriminate|].
    cbn [shapeM shapeN map norm_ints] in Hz, Hw. fold (shapeM ct) in Hz. fold (shapeN ct) in Hw.
    destruct (norm_int (mm c) z) as [j|] eqn:Ej; [|discriminate]. destruct (norm_ints (shapeM ct) zt) as [it|] eqn:Ez; [|discriminate].
    destruct (norm_int (nm c) w) as [j2|] eqn:Ej2; [|discriminate]. destruct (norm_ints (shapeN ct) wt) as [jt|] eqn:Ew; [|discriminate].
    inversion Hz; inversion Hw; subst.
    cbn [map gi_loop4]. rewrite Ej, Ej2.
    rewrite (IH zt wt it jt _ _ _ _ Ez Ew).
    cbn [rev int_fs flatM map remaps length repeat]. fold (flatM ct).
    rewrite <- !app_assoc. reflexivity.
Qed.

Lemma int_fs_length (x : ttm R) : forall is_ js, length is_ = length x -> length js = length x -> length (int_fs x is_ js) = length x.
Proof. induction x as [|c ct IH]; intros [|i it] [|j jt] H1 H2; simpl in *; try discriminate; auto. Qed.
Lemma int_fs_map_idx (x : ttm R) : forall is_ js, length is_ = length x -> length js = length x ->
  map_idx (int_fs x is_ js) (repeat 0%nat (length x)) = Some (merge_idx (shapeN x) is_ js).
Proof.
  induction x as [|c ct IH]; intros [|i it] [|j jt] H1 H2; simpl in H1, H2; try discriminate; [reflexivity|].
  cbn [int_fs length repeat map_idx shapeN map merge_idx]. fold (shapeN ct). rewrite IH by lia. reflexivity.
Qed.
Lemma int_fs_nkept (x : ttm R) : forall is_ js i, length is_ = length x -> length js = length x ->
  nkept i (remaps (int_fs x is_ js) (flatM x)) [] = 0%nat.
Proof.
  induction x as [|c ct IH]; intros [|i0 it] [|j jt] i H1 H2; simpl in H1, H2; try discriminate; [reflexivity|].
  cbn [int_fs flatM map remaps nkept]. fold (flatM ct). unfold keptb. cbn [remap_core nn]. cbn. apply IH; lia.
Qed.

Theorem getitem_ttm_all_int (x : ttm R) (zs ws : list Z) (is_ js : list nat) : wf4 x ->
  norm_ints (shapeM x) zs = Some is_ -> norm_ints (shapeN x) ws = Some js ->
  getitem_ttm x (map IInt zs ++ map IInt ws) = GS (entry4 x is_ js).
Proof.
  intros W Hz Hw.
  destruct (norm_ints_length _ _ _ Hz) as [Lz Li]. destruct (norm_ints_length _ _ _ Hw) as [Lw Lj].
  unfold shapeM in Lz, Li. unfold shapeN in Lw, Lj. rewrite map_length in Lz, Li, Lw, Lj.
  unfold getitem_ttm.
  assert (Hf : filter is_ell (map IInt zs ++ map IInt ws) = []).
  { rewrite filter_app. assert (F : forall l, filter is_ell (map IInt l) = []) by (induction l; simpl; auto). rewrite !F. reflexivity. }
  rewrite Hf. cbn [length Nat.ltb Nat.leb].
  assert (Hlen : length (map IInt zs ++ map IInt ws) = (2 * length x)%nat) by (rewrite app_length, !map_length; lia).
  rewrite Hlen. replace (Nat.odd (2 * length x)) with false by (symmetry; rewrite Nat.odd_mul; reflexivity).
  replace (2 * length x / 2)%nat with (length x) by (symmetry; rewrite Nat.mul_comm; apply Nat.div_mul; lia).
  assert (H1 : firstn (length x) (map IInt zs ++ map IInt ws) = map IInt zs).
  { rewrite firstn_app, map_length, Lz, Nat.sub_diag. cbn [firstn]. rewrite app_nil_r. rewrite <- Lz at 1. rewrite <- (map_length IInt zs). apply firstn_all. }
  assert (H2 : firstn (length x) (skipn (length x) (map IInt zs ++ map IInt ws)) = map IInt ws).
  { rewrite skipn_app, map_length, Lz, Nat.sub_diag. cbn [skipn]. rewrite (skipn_all2 (map IInt zs)) by (rewrite map_length; lia). cbn [app].
    rewrite <- Lw at 1. rewrite <- (map_length IInt ws). apply firstn_all. }
  rewrite H1, H2. rewrite (gi_loop4_ints x zs ws is_ js [] [] 0%nat [] Hz Hw). cbn [rev app].
  set (cores := remaps (int_fs x is_ js) (flatM x)).
  assert (Wc : wf cores).
  { apply remaps_wf; [rewrite flatM_length, int_fs_length; auto|apply flatM_wf; exact W]. }
  destruct (reduce_dims_none_kept cores [] Wc (int_fs_nkept x is_ js 0%nat Li Lj)) as [c [Hc1 [Hc2 Hc3]]].
  destruct cores as [|c0 ct] eqn:Ec; [destruct Wc; congruence|]. rewrite <- Ec in *.
  rewrite Hc1. f_equal. rewrite Hc3.
  assert (Hlc : length cores = length x) by (unfold cores; rewrite remaps_length; rewrite ?int_fs_length, ?flatM_length; auto).
  rewrite Hlc. unfold cores.
  rewrite remaps_entry by (rewrite ?flatM_length, ?repeat_length, ?int_fs_length; auto).
  rewrite (int_fs_map_idx x is_ js Li Lj).
  symmetry. apply entry4_flat; [exact Li|apply (norm_ints_lt _ _ _ Hw)].
Qed.

End GetitemTTMP.
