(* A[i1, ..., id, j1, ..., jd] for a TT matrix and a full tuple of integers (negative allowed): the scalar entry the dense operator has at that
   (row, column) multi-index - every order, mode sizes and rank profile (C08).  The loop gi_loop4 works on the merged row-column mode. *)
From Coq Require Import List Arith Lia Ring Bool ZArith.
From TT Require Import RingSig SumN Mat Dense Core CoreP Arith ArithP MatOps MatOpsP Reduce Struct StructP ReduceDimsP Index IndexP.
Import ListNotations.

Section GetitemTTMP.
Context {R : Type} {RO : RingOps R} {RL : RingLaws R}.
Add Ring Rr70 : Rth.
Open Scope R_scope.

Fixpoint norm_ints (ns : list nat) (zs : list Z) : option (list nat) :=
  match ns, zs with
  | [], [] => Some []
  | n :: nt, z :: zt => match norm_int n z, norm_ints nt zt with Some j, Some jt => Some (j :: jt) | _, _ => None end
  | _, _ => None
  end.
Fixpoint int_fs (x : ttm R) (is_ js : list nat) : list modemap :=
  match x, is_, js with
  | c :: ct, i :: it, j :: jt => (1%nat, fun _ : nat => Some (i * nm c + j)%nat) :: int_fs ct it jt
  | _, _, _ => []
  end.

Lemma norm_ints_length ns : forall zs js, norm_ints ns zs = Some js -> length zs = length ns /\ length js = length ns.
Proof.
  induction ns as [|n t IH]; intros [|z zt] js H; simpl in H; try discriminate.
  - inversion H. auto.
  - destruct (norm_int n z); [|discriminate]. destruct (norm_ints t zt) eqn:E; [|discriminate]. inversion H; subst.
    destruct (IH zt l E). simpl. auto.
Qed.
Lemma norm_ints_lt ns : forall zs js, norm_ints ns zs = Some js -> Forall2 lt js ns.
Proof.
  induction ns as [|n t IH]; intros [|z zt] js H; simpl in H; try discriminate.
  - inversion H. constructor.
  - destruct (norm_int n z) eqn:En; [|discriminate]. destruct (norm_ints t zt) eqn:E; [|discriminate]. inversion H; subst.
    constructor; [apply (norm_int_in_range n z n0 En)|apply (IH zt l E)].
Qed.

Lemma gi_loop4_ints (x : ttm R) : forall zs ws is_ js racc shp i excl,
  norm_ints (shapeM x) zs = Some is_ -> norm_ints (shapeN x) ws = Some js ->
  gi_loop4 (map IInt zs) (map IInt ws) x racc shp i excl
  = inr (rev racc ++ remaps (int_fs x is_ js) (flatM x), rev shp ++ repeat (1%nat, 1%nat) (length x), excl).
Proof.
  induction x as [|c ct IH]; intros zs ws is_ js racc shp i excl Hz Hw.
  - destruct zs; [|discriminate]. destruct ws; [|discriminate]. cbn. rewrite !app_nil_r. reflexivity.
  - destruct zs as [|z zt]; [discriminate|]. destruct ws as [|w wt]; [discriminate|].
    cbn [shapeM shapeN map norm_ints] in Hz, Hw. fold (shapeM ct) in Hz. fold (shapeN ct) in Hw.
    destruct (norm_int (mm c) z) as [j|] eqn:Ej; [|discriminate]. destruct (norm_ints (shapeM ct) zt) as [it|] eqn:Ez; [|discriminate].
    destruct (norm_int (nm c) w) as [j2|] eqn:Ej2; [|discriminate]. destruct (norm_ints (shapeN ct) wt) as [jt|] eqn:Ew; [|discriminate].
    inversion Hz; inversion Hw; subst.
    cbn [map gi_loop4]. rewrite Ej, Ej2.
    rewrite (IH zt wt it jt _ _ _ _ Ez Ew).
    cbn [rev int_fs flatM map remaps length repeat]. fold (flatM ct).
    rewrite <- !app_assoc. reflexivity.
Qed.

Lemma int_fs_length (x : ttm R) : forall is_ js, length is_ = length x -> length js = length x -> length (int_fs x is_ js) = length x.
Proof. induction x as [|c ct IH]; intros [|i it] [|j jt] H1 H2; simpl in *; try discriminate; auto. Qed.
Lemma int_fs_map_idx (x : ttm R) : forall is_ js, length is_ = length x -> length js = length x ->
  map_idx (int_fs x is_ js) (repeat 0%nat (length x)) = Some (merge_idx (shapeN x) is_ js).
Proof.
  induction x as [|c ct IH]; intros [|i it] [|j jt] H1 H2; simpl in H1, H2; try discriminate; [reflexivity|].
  cbn [int_fs length repeat map_idx shapeN map merge_idx]. fold (shapeN ct). rewrite IH by lia. reflexivity.
Qed.
Lemma int_fs_nkept (x : ttm R) : forall is_ js i, length is_ = length x -> length js = length x ->
  nkept i (remaps (int_fs x is_ js) (flatM x)) [] = 0%nat.
Proof.
  induction x as [|c ct IH]; intros [|i0 it] [|j jt] i H1 H2; simpl in H1, H2; try discriminate; [reflexivity|].
  cbn [int_fs flatM map remaps nkept]. fold (flatM ct). unfold keptb. cbn [remap_core nn]. cbn. apply IH; lia.
Qed.

Theorem getitem_ttm_all_int (x : ttm R) (zs ws : list Z) (is_ js : list nat) : wf4 x ->
  norm_ints (shapeM x) zs = Some is_ -> norm_ints (shapeN x) ws = Some js ->
  getitem_ttm x (map IInt zs ++ map IInt ws) = GS (entry4 x is_ js).
Proof.
  intros W Hz Hw.
  destruct (norm_ints_length _ _ _ Hz) as [Lz Li]. destruct (norm_ints_length _ _ _ Hw) as [Lw Lj].
  unfold shapeM in Lz, Li. unfold shapeN in Lw, Lj. rewrite map_length in Lz, Li, Lw, Lj.
  unfold getitem_ttm.
  assert (Hf : filter is_ell (map IInt zs ++ map IInt ws) = []).
  { rewrite filter_app. assert (F : forall l, filter is_ell (map IInt l) = []) by (induction l; simpl; auto). rewrite !F. reflexivity. }
  rewrite Hf. cbn [length Nat.ltb Nat.leb].
  assert (Hlen : length (map IInt zs ++ map IInt ws) = (2 * length x)%nat) by (rewrite app_length, !map_length; lia).
  rewrite Hlen. replace (Nat.odd (2 * length x)) with false by (symmetry; rewrite Nat.odd_mul; reflexivity).
  replace (2 * length x / 2)%nat with (length x) by (symmetry; rewrite Nat.mul_comm; apply Nat.div_mul; lia).
  assert (H1 : firstn (length x) (map IInt zs ++ map IInt ws) = map IInt zs).
  { rewrite firstn_app, map_length, Lz, Nat.sub_diag. cbn [firstn]. rewrite app_nil_r. rewrite <- Lz at 1. rewrite <- (map_length IInt zs). apply firstn_all. }
  assert (H2 : firstn (length x) (skipn (length x) (map IInt zs ++ map IInt ws)) = map IInt ws).
  { rewrite skipn_app, map_length, Lz, Nat.sub_diag. cbn [skipn]. rewrite (skipn_all2 (map IInt zs)) by (rewrite map_length; lia). cbn [app].
    rewrite <- Lw at 1. rewrite <- (map_length IInt ws). apply firstn_all. }
  rewrite H1, H2. rewrite (gi_loop4_ints x zs ws is_ js [] [] 0%nat [] Hz Hw). cbn [rev app].
  set (cores := remaps (int_fs x is_ js) (flatM x)).
  assert (Wc : wf cores).
  { apply remaps_wf; [rewrite flatM_length, int_fs_length; auto|apply flatM_wf; exact W]. }
  destruct (reduce_dims_none_kept cores [] Wc (int_fs_nkept x is_ js 0%nat Li Lj)) as [c [Hc1 [Hc2 Hc3]]].
  destruct cores as [|c0 ct] eqn:Ec; [destruct Wc; congruence|]. rewrite <- Ec in *.
  rewrite Hc1. f_equal. rewrite Hc3.
  assert (Hlc : length cores = length x) by (unfold cores; rewrite remaps_length; rewrite ?int_fs_length, ?flatM_length; auto).
  rewrite Hlc. unfold cores.
  rewrite remaps_entry by (rewrite ?flatM_length, ?repeat_length, ?int_fs_length; auto).
  rewrite (int_fs_map_idx x is_ js Li Lj).
  symmetry. apply entry4_flat; [exact Li|apply (norm_ints_lt _ _ _ Hw)].
Qed.

(* ---- pairs of integers and slices (no None): the result is the operator y with y[is', js'] = x[src rows, src cols] ---- *)
Definition is_slice_item (i : ixitem) : bool := match i with ISlice _ _ _ => true | _ => false end.
(* per pair: the mode map on the merged index, the (rows, cols) shape of the pair in the result, whether the pair is kept *)
Fixpoint pair_fs (x : ttm R) (rows cols : list ixitem) : option (list modemap * list (nat * nat) * list bool) :=
  match x, rows, cols with
  | [], [], [] => Some ([], [], [])
  | c :: ct, IInt z :: rt, IInt z2 :: lt =>
      match norm_int (mm c) z, norm_int (nm c) z2, pair_fs ct rt lt with
      | Some j, Some j2, Some (fs, shp, ks) => Some ((1%nat, fun _ : nat => Some (j * nm c + j2)%nat) :: fs, (1%nat, 1%nat) :: shp, false :: ks)
      | _, _, _ => None
      end
  | c :: ct, ISlice a b s :: rt, ISlice a2 b2 s2 :: lt =>
      match slice_pos (mm c) a b s, slice_pos (nm c) a2 b2 s2, pair_fs ct rt lt with
      | Some (st, sp, len), Some (st2, sp2, len2), Some (fs, shp, ks) =>
          Some ((len * len2, fun k => Some ((st + (k / len2) * sp) * nm c + (st2 + (k mod len2) * sp2)))%nat :: fs, (len, len2) :: shp, true :: ks)
      | _, _, _ => None
      end
  | _, _, _ => None
  end.
Fixpoint true_positions (i : nat) (ks : list bool) : list nat :=
  match ks with [] => [] | b :: t => (if b then [i] else []) ++ true_positions (S i) t end.

Lemma gi_loop4_pairs (x : ttm R) : forall rows cols racc shp i excl fs pshp ks, pair_fs x rows cols = Some (fs, pshp, ks) ->
  gi_loop4 rows cols x racc shp i excl = inr (rev racc ++ remaps fs (flatM x), rev shp ++ pshp, excl ++ true_positions i ks).
Proof.
  induction x as [|c ct IH]; intros rows cols racc shp i excl fs pshp ks H.
  - destruct rows; [|simpl in H; destruct i0; discriminate]. destruct cols; [|discriminate]. inversion H; subst.
    cbn. rewrite !app_nil_r. reflexivity.
  - destruct rows as [|r rt]; [discriminate|]. destruct cols as [|cl lt]; [destruct r; discriminate|].
    destruct r as [z|a b s| |]; try discriminate; destruct cl as [z2|a2 b2 s2| |]; try discriminate; cbn [pair_fs] in H.
    + destruct (norm_int (mm c) z) as [j|] eqn:E1; [|discriminate]. destruct (norm_int (nm c) z2) as [j2|] eqn:E2; [|discriminate].
      destruct (pair_fs ct rt lt) as [[[fs' shp'] ks']|] eqn:E; [|discriminate]. inversion H; subst.
      cbn [gi_loop4]. rewrite E1, E2. rewrite (IH rt lt _ _ _ _ fs' shp' ks' E).
      cbn [rev flatM map remaps true_positions app]. fold (flatM ct). rewrite <- !app_assoc. reflexivity.
    + destruct (slice_pos (mm c) a b s) as [[[st sp] len]|] eqn:E1; [|discriminate].
      destruct (slice_pos (nm c) a2 b2 s2) as [[[st2 sp2] len2]|] eqn:E2; [|discriminate].
      destruct (pair_fs ct rt lt) as [[[fs' shp'] ks']|] eqn:E; [|discriminate]. inversion H; subst.
      cbn [gi_loop4]. rewrite E1, E2. rewrite (IH rt lt _ _ _ _ fs' shp' ks' E).
      cbn [rev flatM map remaps true_positions app]. fold (flatM ct). rewrite <- !app_assoc. reflexivity.
Qed.

Lemma pair_fs_lengths (x : ttm R) : forall rows cols fs shp ks, pair_fs x rows cols = Some (fs, shp, ks) ->
  length rows = length x /\ length cols = length x /\ length fs = length x /\ length shp = length x /\ length ks = length x.
Proof.
  induction x as [|c ct IH]; intros rows cols fs shp ks H.
  - destruct rows; [|simpl in H; destruct i; discriminate]. destruct cols; [|discriminate]. inversion H. repeat split; reflexivity.
  - destruct rows as [|r rt]; [discriminate|]. destruct cols as [|cl lt]; [destruct r; discriminate|].
    destruct r as [z|a b s| |]; try discriminate; destruct cl as [z2|a2 b2 s2| |]; try discriminate; cbn [pair_fs] in H.
    + destruct (norm_int (mm c) z); [|discriminate]. destruct (norm_int (nm c) z2); [|discriminate].
      destruct (pair_fs ct rt lt) as [[[fs' shp'] ks']|] eqn:E; [|discriminate]. inversion H; subst.
      destruct (IH _ _ _ _ _ E) as [A1 [A2 [A3 [A4 A5]]]]. cbn [length]. repeat split; lia.
    + destruct (slice_pos (mm c) a b s) as [[[st sp] len]|]; [|discriminate]. destruct (slice_pos (nm c) a2 b2 s2) as [[[st2 sp2] len2]|]; [|discriminate].
      destruct (pair_fs ct rt lt) as [[[fs' shp'] ks']|] eqn:E; [|discriminate]. inversion H; subst.
      destruct (IH _ _ _ _ _ E) as [A1 [A2 [A3 [A4 A5]]]]. cbn [length]. repeat split; lia.
Qed.

Fixpoint kept_of {A} (l : list A) (ks : list bool) : list A :=
  match l, ks with a :: t, b :: kt => (if b then [a] else []) ++ kept_of t kt | _, _ => [] end.
(* the source row / column multi-index of the result position (is', js') *)
Fixpoint pair_src (x : ttm R) (rows cols : list ixitem) (is' js' : list nat) : list nat * list nat :=
  match x, rows, cols with
  | c :: ct, IInt z :: rt, IInt z2 :: lt =>
      let '(ri, ci) := pair_src ct rt lt is' js' in
      (match norm_int (mm c) z with Some j => j | None => O end :: ri, match norm_int (nm c) z2 with Some j => j | None => O end :: ci)
  | c :: ct, ISlice a b s :: rt, ISlice a2 b2 s2 :: lt =>
      let '(ri, ci) := pair_src ct rt lt (tl is') (tl js') in
      (match slice_pos (mm c) a b s with Some (st, sp, _) => (st + hd O is' * sp)%nat | None => O end :: ri,
       match slice_pos (nm c) a2 b2 s2 with Some (st, sp, _) => (st + hd O js' * sp)%nat | None => O end :: ci)
  | _, _, _ => ([], [])
  end.

Lemma divmod_merge i' j' len2 : (j' < len2)%nat -> ((i' * len2 + j') / len2 = i' /\ (i' * len2 + j') mod len2 = j')%nat.
Proof.
  intros H. assert (len2 <> 0)%nat by lia. split.
  - rewrite Nat.div_add_l by assumption. rewrite Nat.div_small by exact H. lia.
  - rewrite Nat.add_comm, Nat.mod_add by assumption. apply Nat.mod_small. exact H.
Qed.

Lemma fullidx_pairs (x : ttm R) : forall rows cols fs shp ks i excl is' js',
  pair_fs x rows cols = Some (fs, shp, ks) ->
  (forall p, (p < length ks)%nat -> memb (i + p) excl = nth p ks false) ->
  length is' = length (kept_of shp ks) -> Forall2 lt js' (map snd (kept_of shp ks)) ->
  nkept i (remaps fs (flatM x)) excl = length (kept_of shp ks) /\
  map_idx fs (fullidx i (remaps fs (flatM x)) excl (merge_idx (map snd (kept_of shp ks)) is' js'))
  = Some (merge_idx (shapeN x) (fst (pair_src x rows cols is' js')) (snd (pair_src x rows cols is' js'))).
Proof.
  induction x as [|c ct IH]; intros rows cols fs shp ks i excl is' js' H He Hli HF.
  - destruct rows; [|simpl in H; destruct i0; discriminate]. destruct cols; [|discriminate]. inversion H; subst. split; reflexivity.
  - destruct rows as [|r rt]; [discriminate|]. destruct cols as [|cl lt]; [destruct r; discriminate|].
    destruct r as [z|a b s| |]; try discriminate; destruct cl as [z2|a2 b2 s2| |]; try discriminate; cbn [pair_fs] in H.
    + destruct (norm_int (mm c) z) as [j|] eqn:E1; [|discriminate]. destruct (norm_int (nm c) z2) as [j2|] eqn:E2; [|discriminate].
      destruct (pair_fs ct rt lt) as [[[fs' shp'] ks']|] eqn:E; [|discriminate]. inversion H; subst. clear H.
      cbn [kept_of app] in Hli, HF |- *.
      assert (Hm : memb i excl = false) by (rewrite <- (Nat.add_0_r i); rewrite (He 0%nat) by (simpl; lia); reflexivity).
      assert (He' : forall p, (p < length ks')%nat -> memb (S i + p) excl = nth p ks' false).
      { intros p Hp. replace (S i + p)%nat with (i + S p)%nat by lia. rewrite (He (S p)) by (simpl; lia). reflexivity. }
      destruct (IH rt lt fs' shp' ks' (S i) excl is' js' E He' Hli HF) as [H1 H2].
      cbn [flatM map remaps nkept fullidx map_idx pair_src shapeN merge_idx]. fold (flatM ct) (shapeN ct).
      unfold keptb. cbn [remap_core nn]. rewrite Hm. cbn [Nat.eqb negb andb].
      rewrite E1, E2. destruct (pair_src ct rt lt is' js') as [ri ci] eqn:Es. cbn [fst snd] in *.
      rewrite H1, H2. split; reflexivity.
    + destruct (slice_pos (mm c) a b s) as [[[st sp] len]|] eqn:E1; [|discriminate].
      destruct (slice_pos (nm c) a2 b2 s2) as [[[st2 sp2] len2]|] eqn:E2; [|discriminate].
      destruct (pair_fs ct rt lt) as [[[fs' shp'] ks']|] eqn:E; [|discriminate]. inversion H; subst. clear H.
      cbn [kept_of app map snd length] in Hli, HF |- *.
      destruct is' as [|i' it]; [discriminate|]. destruct js' as [|j' jt]; [inversion HF|].
      inversion HF as [|? ? ? ? Hj HF']; subst. simpl in Hli.
      assert (Hm : memb i excl = true) by (rewrite <- (Nat.add_0_r i); rewrite (He 0%nat) by (simpl; lia); reflexivity).
      assert (He' : forall p, (p < length ks')%nat -> memb (S i + p) excl = nth p ks' false).
      { intros p Hp. replace (S i + p)%nat with (i + S p)%nat by lia. rewrite (He (S p)) by (simpl; lia). reflexivity. }
      destruct (IH rt lt fs' shp' ks' (S i) excl it jt E He' ltac:(lia) HF') as [H1 H2].
      cbn [flatM map remaps nkept fullidx map_idx pair_src shapeN merge_idx hd tl]. fold (flatM ct) (shapeN ct).
      unfold keptb. cbn [remap_core nn]. rewrite Hm. rewrite andb_false_r. cbn [negb].
      rewrite E1, E2. destruct (pair_src ct rt lt it jt) as [ri ci] eqn:Es. cbn [fst snd] in *.
      rewrite H1, H2. destruct (divmod_merge i' j' len2 Hj) as [D1 D2]. rewrite D1, D2. split; reflexivity.
Qed.

(* the number of cores reduce_dims returns *)
Lemma rd_loop_length (rest : tt R) : forall i carry racc excl, (racc <> [] \/ (0 < nkept i rest excl)%nat) ->
  length (rd_loop i rest carry racc excl) = (length racc + nkept i rest excl)%nat.
Proof.
  induction rest as [|c0 cs IH]; intros i carry racc excl Hk.
  - cbn [rd_loop nkept]. rewrite rev_length. lia.
  - cbn [rd_loop]. set (c := match carry with Some m => absorb_l m c0 | None => c0 end).
    assert (Hnn : nn c = nn c0) by (unfold c; destruct carry; reflexivity).
    cbn [nkept] in *. unfold keptb in *. rewrite Hnn.
    destruct (Nat.eqb (nn c0) 1 && negb (memb i excl)) eqn:Eb; cbn [negb] in *.
    + destruct ((r1 c <? r0 c)%nat || is_nil cs) eqn:Eo.
      * destruct racc as [|l racc'].
        -- destruct cs as [|c1 cs']; cbn [is_nil].
           ++ exfalso. destruct Hk as [Hk|Hk]; [congruence|]. cbn [nkept] in Hk. lia.
           ++ rewrite IH by (right; destruct Hk as [Hk|Hk]; [congruence|lia]). cbn [length]. lia.
        -- rewrite IH by (left; discriminate). cbn [length]. lia.
      * rewrite IH by (destruct Hk as [Hk|Hk]; [left; exact Hk|right; lia]). lia.
    + rewrite IH by (left; discriminate). cbn [length]. lia.
Qed.
Lemma reduce_dims_length (x : tt R) excl : (0 < nkept 0 x excl)%nat -> length (reduce_dims x excl) = nkept 0 x excl.
Proof. intros H. unfold reduce_dims. rewrite rd_loop_length by (right; exact H). reflexivity. Qed.

Lemma memb_true_positions (ks : list bool) : forall i p, (p < length ks)%nat -> memb (i + p) (true_positions i ks) = nth p ks false.
Proof.
  induction ks as [|b t IH]; intros i p Hp; [simpl in Hp; lia|].
  cbn [true_positions]. unfold memb in *. rewrite existsb_app.
  destruct p as [|p].
  - rewrite Nat.add_0_r. cbn [nth].
    assert (E : existsb (Nat.eqb i) (true_positions (S i) t) = false).
    { clear. generalize (S i) (Nat.lt_succ_diag_r i). induction t as [|b t IHt]; intros j Hj; [reflexivity|]. cbn [true_positions]. rewrite existsb_app.
      rewrite (IHt (S j)) by lia. destruct b; simpl; [destruct (Nat.eqb_spec i j); [lia|reflexivity]|reflexivity]. }
    rewrite E, orb_false_r. destruct b; simpl; [rewrite Nat.eqb_refl; reflexivity|reflexivity].
  - cbn [nth]. replace (i + S p)%nat with (S i + p)%nat by lia. rewrite (IH (S i) p) by (simpl in Hp; lia).
    destruct b; cbn [existsb orb]; [|reflexivity]. destruct (Nat.eqb_spec (S i + p) i); [lia|reflexivity].
Qed.
Lemma true_positions_nonempty (ks : list bool) : forall i, existsb (fun b => b) ks = true -> true_positions i ks <> [].
Proof. induction ks as [|b t IH]; intros i H; [discriminate|]. cbn [true_positions]. destruct b; [discriminate|]. simpl in H. cbn [app]. apply IH. exact H. Qed.

Lemma keep_shapes_pairs (x : ttm R) : forall rows cols fs shp ks i excl, pair_fs x rows cols = Some (fs, shp, ks) ->
  (forall p, (p < length ks)%nat -> memb (i + p) excl = nth p ks false) ->
  keep_shapes i (remaps fs (flatM x)) shp excl = kept_of shp ks.
Proof.
  induction x as [|c ct IH]; intros rows cols fs shp ks i excl H He.
  - destruct rows; [|simpl in H; destruct i0; discriminate]. destruct cols; [|discriminate]. inversion H; subst. reflexivity.
  - destruct rows as [|r rt]; [discriminate|]. destruct cols as [|cl lt]; [destruct r; discriminate|].
    assert (He' : forall ks' b0, ks = b0 :: ks' -> forall p, (p < length ks')%nat -> memb (S i + p) excl = nth p ks' false).
    { intros ks' b0 -> p Hp. replace (S i + p)%nat with (i + S p)%nat by lia. rewrite (He (S p)) by (simpl; lia). reflexivity. }
    assert (Hm : forall ks' b0, ks = b0 :: ks' -> memb i excl = b0).
    { intros ks' b0 ->. rewrite <- (Nat.add_0_r i). rewrite (He 0%nat) by (simpl; lia). reflexivity. }
    destruct r as [z|a b s| |]; try discriminate; destruct cl as [z2|a2 b2 s2| |]; try discriminate; cbn [pair_fs] in H.
    + destruct (norm_int (mm c) z) as [j|]; [|discriminate]. destruct (norm_int (nm c) z2) as [j2|]; [|discriminate].
      destruct (pair_fs ct rt lt) as [[[fs' shp'] ks']|] eqn:E; [|discriminate]. inversion H; subst.
      cbn [flatM map remaps keep_shapes kept_of]. fold (flatM ct). cbn [remap_core nn]. rewrite (Hm ks' false eq_refl). cbn [Nat.eqb negb andb app].
      apply (IH rt lt fs' shp' ks' (S i) excl E (He' ks' false eq_refl)).
    + destruct (slice_pos (mm c) a b s) as [[[st sp] len]|]; [|discriminate]. destruct (slice_pos (nm c) a2 b2 s2) as [[[st2 sp2] len2]|]; [|discriminate].
      destruct (pair_fs ct rt lt) as [[[fs' shp'] ks']|] eqn:E; [|discriminate]. inversion H; subst.
      cbn [flatM map remaps keep_shapes kept_of]. fold (flatM ct). cbn [remap_core nn]. rewrite (Hm ks' true eq_refl). rewrite andb_false_r. cbn [app]. f_equal.
      apply (IH rt lt fs' shp' ks' (S i) excl E (He' ks' true eq_refl)).
Qed.

Lemma pair_fs_no_ell (x : ttm R) : forall rows cols r, pair_fs x rows cols = Some r -> filter is_ell (rows ++ cols) = [].
Proof.
  intros rows cols r H.
  assert (A : forall (x0 : ttm R) rows0 cols0 r0, pair_fs x0 rows0 cols0 = Some r0 -> filter is_ell rows0 = [] /\ filter is_ell cols0 = []).
  { clear. induction x0 as [|c ct IH]; intros rows cols r H.
    - destruct rows; [|simpl in H; destruct i; discriminate]. destruct cols; [|discriminate]. split; reflexivity.
    - destruct rows as [|r0 rt]; [discriminate|]. destruct cols as [|cl lt]; [destruct r0; discriminate|].
      destruct r0 as [z|a b s| |]; try discriminate; destruct cl as [z2|a2 b2 s2| |]; try discriminate; cbn [pair_fs] in H.
      + destruct (norm_int (mm c) z); [|discriminate]. destruct (norm_int (nm c) z2); [|discriminate].
        destruct (pair_fs ct rt lt) as [[[fs' shp'] ks']|] eqn:E; [|discriminate]. destruct (IH _ _ _ E). simpl. split; assumption.
      + destruct (slice_pos (mm c) a b s) as [[[? ?] ?]|]; [|discriminate]. destruct (slice_pos (nm c) a2 b2 s2) as [[[? ?] ?]|]; [|discriminate].
        destruct (pair_fs ct rt lt) as [[[fs' shp'] ks']|] eqn:E; [|discriminate]. destruct (IH _ _ _ E). simpl. split; assumption. }
  destruct (A x rows cols r H) as [A1 A2]. rewrite filter_app, A1, A2. reflexivity.
Qed.

Lemma pair_src_props (x : ttm R) : forall rows cols fs shp ks is' js', pair_fs x rows cols = Some (fs, shp, ks) ->
  length is' = length (kept_of shp ks) -> Forall2 lt js' (map snd (kept_of shp ks)) ->
  length (fst (pair_src x rows cols is' js')) = length x /\ Forall2 lt (snd (pair_src x rows cols is' js')) (shapeN x).
Proof.
  induction x as [|c ct IH]; intros rows cols fs shp ks is' js' H Hl HF.
  - destruct rows; [|simpl in H; destruct i; discriminate]. destruct cols; [|discriminate]. split; [reflexivity|constructor].
  - destruct rows as [|r rt]; [discriminate|]. destruct cols as [|cl lt]; [destruct r; discriminate|].
    destruct r as [z|a b s| |]; try discriminate; destruct cl as [z2|a2 b2 s2| |]; try discriminate; cbn [pair_fs] in H.
    + destruct (norm_int (mm c) z) as [j|] eqn:E1; [|discriminate]. destruct (norm_int (nm c) z2) as [j2|] eqn:E2; [|discriminate].
      destruct (pair_fs ct rt lt) as [[[fs' shp'] ks']|] eqn:E; [|discriminate]. inversion H; subst.
      cbn [kept_of app] in Hl, HF. destruct (IH rt lt fs' shp' ks' is' js' E Hl HF) as [H1 H2].
      cbn [pair_src shapeN map]. fold (shapeN ct). rewrite E1, E2. destruct (pair_src ct rt lt is' js') as [ri ci]. cbn [fst snd length] in *.
      split; [lia|]. constructor; [apply (norm_int_in_range _ _ _ E2)|exact H2].
    + destruct (slice_pos (mm c) a b s) as [[[st sp] len]|] eqn:E1; [|discriminate].
      destruct (slice_pos (nm c) a2 b2 s2) as [[[st2 sp2] len2]|] eqn:E2; [|discriminate].
      destruct (pair_fs ct rt lt) as [[[fs' shp'] ks']|] eqn:E; [|discriminate]. inversion H; subst.
      cbn [kept_of app map snd length] in Hl, HF.
      destruct is' as [|i' it]; [discriminate|]. destruct js' as [|j' jt]; [inversion HF|]. inversion HF as [|? ? ? ? Hj HF']; subst. simpl in Hl.
      destruct (IH rt lt fs' shp' ks' it jt E ltac:(lia) HF') as [H1 H2].
      cbn [pair_src shapeN map hd tl]. fold (shapeN ct). rewrite E1, E2. destruct (pair_src ct rt lt it jt) as [ri ci]. cbn [fst snd length] in *.
      split; [lia|]. constructor; [apply (proj2 (slice_pos_in_range _ _ _ _ _ _ _ E2)); exact Hj|exact H2].
Qed.

Lemma kept_pos {A} (l : list A) : forall ks, length ks = length l -> existsb (fun b => b) ks = true -> (0 < length (kept_of l ks))%nat.
Proof.
  induction l as [|a t IH]; intros [|b kt] Hl Hex; simpl in *; try discriminate.
  destruct b; [simpl; lia|]. simpl in Hex. cbn [app]. apply IH; [lia|exact Hex].
Qed.

Lemma getitem_ttm_tail (cores : tt R) (shp : list (nat * nat)) (excl : list nat) : cores <> [] -> excl <> [] ->
  match cores with
  | [] => GE EPyIndex
  | _ => let y := reduce_dims cores excl in
         match excl with
         | [] => match y with c :: _ => GS (e3 c 0 0 0)%nat | [] => GE EModel end
         | _ => let ks := keep_shapes 0 cores shp excl in GM (unflatM (map fst ks) (map snd ks) y)
         end
  end = GM (unflatM (map fst (keep_shapes 0 cores shp excl)) (map snd (keep_shapes 0 cores shp excl)) (reduce_dims cores excl)).
Proof. intros Hc He. destruct cores; [congruence|]. destruct excl; [congruence|]. reflexivity. Qed.

Lemma fullidx_length (cs : tt R) : forall e idx i, length (fullidx i cs e idx) = length cs.
Proof. induction cs as [|c t IH]; intros e idx i; [reflexivity|]. cbn [fullidx]. destruct (keptb i c e); cbn [length]; rewrite IH; reflexivity. Qed.

(* THE COMPOSITE STATEMENT FOR OPERATORS: a tuple of row items followed by as many column items, each pair (integer, integer) or (slice, slice) (negative
   integers, steps, clipped bounds), at least one pair of slices: A[rows, cols] is a TT matrix y whose row / column modes are the lengths of the slice pairs
   and  y[is', js'] = A[src rows, src cols]  for every position of the result - every order, mode sizes (rectangular), rank profile *)
Theorem getitem_ttm_int_slice (x : ttm R) rows cols fs shp ks : wf4 x -> pair_fs x rows cols = Some (fs, shp, ks) -> existsb (fun b => b) ks = true ->
  exists y, getitem_ttm x (rows ++ cols) = GM y /\
    forall is' js', length is' = length (kept_of shp ks) -> Forall2 lt js' (map snd (kept_of shp ks)) ->
      entry4 y is' js' = entry4 x (fst (pair_src x rows cols is' js')) (snd (pair_src x rows cols is' js')).
Proof.
  intros W H Hex.
  destruct (pair_fs_lengths x rows cols fs shp ks H) as [Lr [Lc [Lf [Ls Lk]]]].
  unfold getitem_ttm. rewrite (pair_fs_no_ell x rows cols _ H). cbn [length Nat.ltb Nat.leb].
  assert (Hlen : length (rows ++ cols) = (2 * length x)%nat) by (rewrite app_length; lia).
  rewrite Hlen. replace (Nat.odd (2 * length x)) with false by (symmetry; rewrite Nat.odd_mul; reflexivity).
  replace (2 * length x / 2)%nat with (length x) by (symmetry; rewrite Nat.mul_comm; apply Nat.div_mul; lia).
  assert (H1 : firstn (length x) (rows ++ cols) = rows) by (rewrite firstn_app, Lr, Nat.sub_diag; cbn [firstn]; rewrite app_nil_r; rewrite <- Lr; apply firstn_all).
  assert (H2 : firstn (length x) (skipn (length x) (rows ++ cols)) = cols).
  { rewrite skipn_app, Lr, Nat.sub_diag. cbn [skipn]. rewrite (skipn_all2 rows) by lia. cbn [app]. rewrite <- Lc. apply firstn_all. }
  rewrite H1, H2. rewrite (gi_loop4_pairs x rows cols [] [] 0%nat [] fs shp ks H). cbn [rev app].
  assert (Hmemb : forall p, (p < length ks)%nat -> memb (0 + p) (true_positions 0 ks) = nth p ks false) by (intros; apply memb_true_positions; assumption).
  assert (Wc : wf (remaps fs (flatM x))) by (apply remaps_wf; [rewrite flatM_length; lia|apply flatM_wf; exact W]).
  pose proof (getitem_ttm_tail (remaps fs (flatM x)) shp (true_positions 0 ks) (proj1 Wc) (true_positions_nonempty ks 0%nat Hex)) as HT.
  cbv zeta in HT. cbv beta iota zeta. rewrite HT. clear HT.
  rewrite (keep_shapes_pairs x rows cols fs shp ks 0%nat _ H Hmemb).
  eexists. split; [reflexivity|].
  intros is' js' Hli HF.
  destruct (fullidx_pairs x rows cols fs shp ks 0%nat _ is' js' H Hmemb Hli HF) as [Hn Hmap].
  assert (Hpos : (0 < length (kept_of shp ks))%nat).
  { apply kept_pos; [lia|exact Hex]. }
  assert (Hlj : length js' = length (kept_of shp ks)) by (apply Forall2_length in HF; rewrite map_length in HF; exact HF).
  unfold entry4 at 1. rewrite slices4_unflatM; rewrite ?map_length; try assumption; try reflexivity.
  2:{ rewrite reduce_dims_length by (rewrite Hn; exact Hpos). exact Hn. }
  change (chainM (slices (reduce_dims (remaps fs (flatM x)) (true_positions 0 ks)) (merge_idx (map snd (kept_of shp ks)) is' js')) 0%nat 0%nat)
    with (entry (reduce_dims (remaps fs (flatM x)) (true_positions 0 ks)) (merge_idx (map snd (kept_of shp ks)) is' js')).
  rewrite reduce_dims_full; [|rewrite Hn; exact Hpos|rewrite Hn, merge_length; rewrite ?map_length; auto].
  rewrite remaps_entry; [|rewrite flatM_length; lia|rewrite fullidx_length, remaps_length; rewrite ?flatM_length; lia].
  rewrite Hmap.
  destruct (pair_src_props x rows cols fs shp ks is' js' H Hli HF) as [P1 P2].
  symmetry. apply entry4_flat; assumption.
Qed.

End GetitemTTMP.
