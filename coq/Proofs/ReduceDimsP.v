(* reduce_dims(exclude) preserves the value on the surviving modes (used by sum(index), dot(axis), slicing). *)
From Coq Require Import List Arith Lia Ring Bool.
From TT Require Import RingSig SumN Mat Dense Core CoreP Arith ArithP MatOps Reduce.
Import ListNotations.

Section ReduceDimsP.
Context {R : Type} {RO : RingOps R} {RL : RingLaws R}.
Add Ring Rr10 : Rth.
Open Scope R_scope.

Arguments chainM : simpl never.

(* a core is kept iff its mode is larger than 1 or its position is excluded from the reduction *)
Definition keptb (i : nat) (c : core3 R) (excl : list nat) : bool := negb (Nat.eqb (nn c) 1 && negb (memb i excl)).
Fixpoint nkept (i : nat) (x : tt R) (excl : list nat) : nat :=
  match x with [] => O | c :: cs => ((if keptb i c excl then 1 else 0) + nkept (S i) cs excl)%nat end.
(* index of the original tensor: the surviving positions take the given indices, the removed ones index 0 *)
Fixpoint fullidx (i : nat) (x : tt R) (excl : list nat) (idx : list nat) : list nat :=
  match x with
  | [] => []
  | c :: cs => if keptb i c excl then hd O idx :: fullidx (S i) cs excl (tl idx)
               else O :: fullidx (S i) cs excl idx
  end.

Lemma chainM_prefix_ext (l : list (sl R)) : forall t1 t2,
  (forall p q, chainM t1 p q = chainM t2 p q) -> forall p q, chainM (l ++ t1) p q = chainM (l ++ t2) p q.
Proof.
  induction l as [|[k A] l IH]; intros t1 t2 H p q; simpl app; [apply H|].
  rewrite !chainM_cons. apply sum_n_ext. intros a _. rewrite (IH t1 t2 H). reflexivity.
Qed.
Lemma chainM_merge2 k1 k2 (A B : mat R) t p q :
  chainM ((k1, A) :: (k2, B) :: t) p q = chainM ((k2, mmul k1 A B) :: t) p q.
Proof.
  change (chainM ((k1, A) :: (k2, B) :: t) p q) with (mmul k1 A (mmul k2 B (chainM t)) p q).
  change (chainM ((k2, mmul k1 A B) :: t) p q) with (mmul k2 (mmul k1 A B) (chainM t) p q).
  symmetry. apply mmul_assoc.
Qed.
Lemma chainM_head_ext k (A B : mat R) t : (forall p q, A p q = B p q) ->
  forall p q, chainM ((k, A) :: t) p q = chainM ((k, B) :: t) p q.
Proof. intros H p q. rewrite !chainM_cons. apply sum_n_ext. intros a _. rewrite H. reflexivity. Qed.

Lemma slices_snoc (l : tt R) : forall idx c j, length idx = length l ->
  slices (l ++ [c]) (idx ++ [j]) = slices l idx ++ [(r1 c, fun a b => e3 c a j b)].
Proof. induction l as [|a l IH]; intros [|i it] c j H; simpl in *; try discriminate; auto. rewrite IH by lia. reflexivity. Qed.
Lemma slices_app2 (l1 : tt R) : forall l2 i1 i2, length i1 = length l1 ->
  slices (l1 ++ l2) (i1 ++ i2) = slices l1 i1 ++ slices l2 i2.
Proof. induction l1 as [|a l IH]; intros l2 [|i it] i2 H; simpl in *; try discriminate; auto. rewrite IH by lia. reflexivity. Qed.

Definition carry_sl (carry : option (core3 R)) : list (sl R) :=
  match carry with Some m => [(r1 m, fun a b => e3 m a O b)] | None => [] end.

(* the current core after a pending carry has been multiplied into it *)
Lemma carried_slice carry (c0 : core3 R) j t p q :
  let c := match carry with Some m => absorb_l m c0 | None => c0 end in
  chainM ((r1 c, fun a b => e3 c a j b) :: t) p q = chainM (carry_sl carry ++ (r1 c0, fun a b => e3 c0 a j b) :: t) p q.
Proof.
  destruct carry as [m|]; cbn zeta; [|reflexivity].
  cbn [carry_sl app]. rewrite chainM_merge2. cbn [absorb_l r1 e3]. reflexivity.
Qed.
Lemma carried_nn carry (c0 : core3 R) : nn (match carry with Some m => absorb_l m c0 | None => c0 end) = nn c0.
Proof. destruct carry; reflexivity. Qed.

Lemma rd_loop_spec (rest : tt R) : forall i carry racc excl idxacc idx',
  length idxacc = length racc ->
  length idx' = nkept i rest excl ->
  (racc <> [] \/ (0 < nkept i rest excl)%nat) ->
  (rest <> [] \/ carry = None) ->
  forall p q,
  chainM (slices (rd_loop i rest carry racc excl) (idxacc ++ idx')) p q =
  chainM (slices (rev racc) idxacc ++ carry_sl carry ++ slices rest (fullidx i rest excl idx')) p q.
Proof.
  induction rest as [|c0 cs IH]; intros i carry racc excl idxacc idx' Hacc Hidx Hk Hc p q.
  - destruct Hc as [Hc|Hc]; [congruence|]. subst carry. simpl in Hidx. destruct idx'; [|discriminate].
    cbn [rd_loop carry_sl fullidx slices app]. rewrite !app_nil_r. reflexivity.
  - cbn [rd_loop]. set (c := match carry with Some m => absorb_l m c0 | None => c0 end).
    assert (Hnn : nn c = nn c0) by apply carried_nn.
    cbn [nkept] in Hidx, Hk. cbn [fullidx]. unfold keptb in *. rewrite Hnn.
    destruct (Nat.eqb (nn c0) 1 && negb (memb i excl)) eqn:Erem; cbn [negb] in *.
    + (* removable core *)
      simpl in Hidx, Hk.
      assert (Hsl0 : forall t p q, chainM (carry_sl carry ++ (r1 c0, fun a b => e3 c0 a O b) :: t) p q
                                  = chainM ((r1 c, fun a b => e3 c a O b) :: t) p q).
      { intros t p' q'. symmetry. apply (carried_slice carry c0 O t p' q'). }
      cbn [slices]. 
      destruct ((r1 c <? r0 c)%nat || is_nil cs) eqn:Eleft.
      * destruct racc as [|l racc'].
        -- destruct cs as [|c1 cs'].
           ++ (* nothing is kept: excluded by the hypothesis *)
              simpl in Hk. destruct Hk as [Hk|Hk]; [congruence|lia].
           ++ cbn [is_nil]. rewrite (IH (S i) (Some c) [] excl idxacc idx'); auto; try (left; discriminate).
              destruct idxacc; [|discriminate]. cbn [rev slices app carry_sl].
              symmetry. apply Hsl0.
        -- destruct idxacc as [|ja idxacc']; [discriminate|]. simpl in Hacc.
           rewrite (IH (S i) None (absorb_r l c :: racc') excl (ja :: idxacc') idx'); auto.
           ++ cbn [carry_sl app].
              (* rev (absorb_r l c :: racc') with indices: the last core's slice is l_j * c_0 *)
              assert (Hrev : exists idr jl, length idr = length (rev racc') /\
                        (forall (z : core3 R), slices (rev (z :: racc')) (ja :: idxacc') = slices (rev racc') idr ++ [(r1 z, fun a b => e3 z a jl b)])).
              { clear - Hacc. 
                assert (Hl : length (ja :: idxacc') = S (length (rev racc'))) by (rewrite rev_length; simpl; lia).
                destruct (@exists_last _ (ja :: idxacc')) as [idr [jl E]]; [discriminate|].
                exists idr, jl. rewrite E in Hl. rewrite app_length in Hl. simpl in Hl.
                split; [lia|]. intros z. cbn [rev]. rewrite E. apply slices_snoc. lia. }
              destruct Hrev as [idr [jl [Hlr Hrev]]]. rewrite !Hrev.
              rewrite <- !app_assoc. apply chainM_prefix_ext. intros p' q'. cbn [app].
              transitivity (chainM ((r1 l, fun a b => e3 l a jl b) :: (r1 c, fun a b => e3 c a O b) :: slices cs (fullidx (S i) cs excl idx')) p' q').
              ** rewrite chainM_merge2. cbn [absorb_r r1 e3]. reflexivity.
              ** apply (chainM_prefix_ext [(r1 l, fun a b => e3 l a jl b)]). intros p2 q2. symmetry. apply Hsl0.
           ++ left. discriminate.
      * (* carry to the right *)
        apply orb_false_iff in Eleft. destruct Eleft as [_ Enil]. destruct cs as [|c1 cs']; [discriminate|].
        rewrite (IH (S i) (Some c) racc excl idxacc idx'); auto; try (left; discriminate).
        apply chainM_prefix_ext. intros p' q'. cbn [carry_sl app]. symmetry. apply Hsl0.
    + (* kept core *)
      destruct idx' as [|j idx'']; [simpl in Hidx; lia|]. simpl in Hidx.
      replace (idxacc ++ j :: idx'') with ((idxacc ++ [j]) ++ idx'') by (rewrite <- app_assoc; reflexivity).
      rewrite (IH (S i) None (c :: racc) excl (idxacc ++ [j]) idx'');
        [ | rewrite app_length; simpl; lia | lia | left; discriminate | destruct cs; [right; reflexivity|left; discriminate] ].
      cbn [rev carry_sl app hd tl slices]. rewrite slices_snoc by (rewrite rev_length; lia).
      rewrite <- !app_assoc. apply chainM_prefix_ext. intros p' q'. cbn [app].
      apply (carried_slice carry c0 j _ p' q').
Qed.

(* reduce_dims(exclude): whenever some mode survives, the result is the original tensor with index 0 on the removed modes *)
Theorem reduce_dims_full (x : tt R) excl idx' :
  (0 < nkept 0 x excl)%nat -> length idx' = nkept 0 x excl ->
  entry (reduce_dims x excl) idx' = entry x (fullidx 0 x excl idx').
Proof.
  intros Hk Hl. unfold entry, reduce_dims.
  rewrite (rd_loop_spec x 0 None [] excl [] idx'); auto.
Qed.

(* nothing survives (every mode has size 1 and none is excluded - an all-integer index, a total sum): the loop hands every core to
   its right neighbour and returns ONE core of mode size 1 whose single slice is the product of all the slices *)
Lemma rd_loop_none_kept (rest : tt R) : forall i carry excl, rest <> [] -> nkept i rest excl = 0%nat ->
  exists c, rd_loop i rest carry [] excl = [c] /\ nn c = 1%nat /\ r1 c = r1 (last rest (mk3 1 1 1 (fun _ _ _ => 0))) /\
    forall p q, chainM [(r1 c, fun a b => e3 c a O b)] p q = chainM (carry_sl carry ++ slices rest (repeat O (length rest))) p q.
Proof.
  induction rest as [|c0 cs IH]; intros i carry excl Hne Hk; [congruence|].
  cbn [rd_loop]. set (c := match carry with Some m => absorb_l m c0 | None => c0 end).
  assert (Hnn : nn c = nn c0) by apply carried_nn.
  assert (Hr1 : r1 c = r1 c0) by (unfold c; destruct carry; reflexivity).
  cbn [nkept] in Hk. unfold keptb in Hk. rewrite Hnn.
  destruct (Nat.eqb (nn c0) 1 && negb (memb i excl)) eqn:Erem; cbn [negb] in Hk; [|simpl in Hk; lia].
  simpl in Hk.
  assert (Hone : nn c = 1%nat).
  { apply andb_true_iff in Erem. destruct Erem as [E1 _]. apply Nat.eqb_eq in E1. lia. }
  destruct cs as [|c1 cs'].
  - rewrite orb_true_r. cbn [is_nil]. exists c. split; [reflexivity|]. split; [exact Hone|]. split; [exact Hr1|].
    intros p q. cbn [length repeat slices]. apply (carried_slice carry c0 O [] p q).
  - cbn [is_nil]. rewrite orb_false_r.
    destruct (IH (S i) (Some c) excl ltac:(discriminate) Hk) as [c' [H1 [H2 [H3 H4]]]].
    exists c'. split; [destruct (r1 c <? r0 c)%nat; exact H1|]. split; [exact H2|]. split; [exact H3|].
    intros p q. rewrite H4. cbn [carry_sl app length repeat slices].
    apply (carried_slice carry c0 O (slices (c1 :: cs') (repeat O (length (c1 :: cs')))) p q).
Qed.

(* reduce_dims when nothing survives: one core, its only entry is the entry of the argument at index 0 everywhere *)
Theorem reduce_dims_none_kept (x : tt R) excl : wf x -> nkept 0 x excl = 0%nat ->
  exists c, reduce_dims x excl = [c] /\ nn c = 1%nat /\ e3 c 0%nat 0%nat 0%nat = entry x (repeat O (length x)).
Proof.
  intros [Hne Hch] Hk. destruct (rd_loop_none_kept x 0%nat None excl Hne Hk) as [c [H1 [H2 [H3 H4]]]].
  exists c. split; [exact H1|]. split; [exact H2|].
  unfold entry. specialize (H4 0%nat 0%nat). cbn [carry_sl app] in H4. rewrite <- H4.
  assert (Hl : r1 c = 1%nat).
  { rewrite H3. clear - Hne Hch. revert Hch. generalize 1%nat at 1. induction x as [|a t IH]; intros r Hc; [congruence|].
    destruct t as [|b t']; [simpl in *; destruct Hc as [_ Hc]; exact Hc|].
    change (last (a :: b :: t') _) with (last (b :: t') (mk3 1 1 1 (fun _ _ _ : nat => 0))).
    destruct Hc as [_ Hc]. apply (IH ltac:(discriminate) (r1 a) Hc). }
  rewrite chainM_cons. rewrite Hl. rewrite sum_n_1. change (chainM (@nil (sl R)) 0%nat 0%nat) with (@delta R RO 0 0). unfold delta. cbn [Nat.eqb]. ring.
Qed.

End ReduceDimsP.
