(* Proofs for Model/Cross.v: the cross approximation hands only in-range index rows to the user's function (C14). *)
From Coq Require Import List Arith Lia Bool.
From TT Require Import Cross.
Import ListNotations.

Lemma Forall2_app_lt a b na nb : Forall2 lt a na -> Forall2 lt b nb -> Forall2 lt (a ++ b) (na ++ nb).
Proof. intros H. induction H; simpl; auto. Qed.
Lemma firstn_S_nth (N : list nat) k : k < length N -> firstn (S k) N = firstn k N ++ [nth k N 0].
Proof.
  revert k. induction N as [|n N IH]; intros k H; simpl in H; [lia|].
  destruct k; [reflexivity|]. rewrite !firstn_cons. cbn [nth]. rewrite IH by lia. reflexivity.
Qed.
Lemma skipn_nth_cons (N : list nat) k : k < length N -> skipn k N = nth k N 0 :: skipn (S k) N.
Proof.
  revert k. induction N as [|n N IH]; intros k H; simpl in H; [lia|].
  destruct k; simpl; [reflexivity|]. apply IH. lia.
Qed.
Lemma unravel_lt p a b : p < a * b -> fst (unravel p b) < a /\ snd (unravel p b) < b.
Proof.
  intros H. assert (Hb : b <> 0) by (intros ->; lia). unfold unravel. cbn [fst snd]. split.
  - apply Nat.div_lt_upper_bound; lia.
  - apply Nat.mod_upper_bound. assumption.
Qed.
Lemma all_in_nth ns ts i : all_in ns ts -> i < length ts -> in_box ns (nth i ts []).
Proof. intros H Hi. unfold all_in in H. rewrite Forall_forall in H. apply H. apply nth_In. assumption. Qed.

(* one forward update keeps the left sets in range, one step further to the right *)
Theorem left_update_in (N : list nat) k Lk pv : k < length N -> all_in (firstn k N) Lk ->
  Forall (fun p => p < length Lk * nth k N 0) pv -> all_in (firstn (S k) N) (left_update Lk (nth k N 0) pv).
Proof.
  intros Hk HL Hp. unfold all_in, left_update. apply Forall_forall. intros t Ht.
  apply in_map_iff in Ht. destruct Ht as [p [<- Hin]]. rewrite Forall_forall in Hp. specialize (Hp p Hin).
  destruct (unravel_lt p _ _ Hp) as [H1 H2]. rewrite firstn_S_nth by assumption.
  apply Forall2_app_lt; [apply all_in_nth; assumption|]. constructor; [assumption|constructor].
Qed.
Theorem right_update_in (N : list nat) k Rk2 pv : S k < length N -> all_in (skipn (k + 2) N) Rk2 ->
  Forall (fun p => p < nth (S k) N 0 * length Rk2) pv -> all_in (skipn (S k) N) (right_update Rk2 pv).
Proof.
  intros Hk HR Hp. unfold all_in, right_update. apply Forall_forall. intros t Ht.
  apply in_map_iff in Ht. destruct Ht as [p [<- Hin]]. rewrite Forall_forall in Hp. specialize (Hp p Hin).
  destruct (unravel_lt p _ _ Hp) as [H1 H2]. rewrite (skipn_nth_cons N (S k)) by assumption.
  constructor; [assumption|]. replace (S (S k)) with (k + 2) by lia. apply all_in_nth; assumption.
Qed.
Theorem right_init_in (N : list nat) k Rk1 pv : k < length N -> all_in (skipn (S k) N) Rk1 ->
  Forall (fun p => p < length Rk1 * nth k N 0) pv -> all_in (skipn k N) (right_init Rk1 (nth k N 0) pv).
Proof.
  intros Hk HR Hp. unfold all_in, right_init. apply Forall_forall. intros t Ht.
  apply in_map_iff in Ht. destruct Ht as [p [<- Hin]]. rewrite Forall_forall in Hp. specialize (Hp p Hin).
  destruct (unravel_lt p _ _ Hp) as [H1 H2]. rewrite (skipn_nth_cons N k) by assumption.
  constructor; [assumption|]. apply all_in_nth; assumption.
Qed.

(* every row handed to the user's function has d entries and column c lies in [0, N[c]) *)
Theorem eval_rows_in (N : list nat) k Lk Rk2 : S k < length N -> all_in (firstn k N) Lk -> all_in (skipn (k + 2) N) Rk2 ->
  all_in N (eval_rows Lk (nth k N 0) (nth (S k) N 0) Rk2).
Proof.
  intros Hk HL HR. unfold all_in, eval_rows. apply Forall_forall. intros t Ht.
  apply in_flat_map in Ht. destruct Ht as [a [Ha Ht]].
  apply in_flat_map in Ht. destruct Ht as [i [Hi Ht]].
  apply in_flat_map in Ht. destruct Ht as [j [Hj Ht]].
  apply in_map_iff in Ht. destruct Ht as [b [<- Hb]].
  apply in_seq in Hi. apply in_seq in Hj.
  unfold all_in in HL, HR. rewrite Forall_forall in HL, HR.
  rewrite <- (firstn_skipn k N) at 1. apply Forall2_app_lt; [apply HL; assumption|].
  rewrite (skipn_nth_cons N k) by lia. rewrite (skipn_nth_cons N (S k)) by lia.
  constructor; [lia|]. constructor; [lia|]. replace (S (S k)) with (k + 2) by lia. apply HR. assumption.
Qed.
Lemma in_box_length ns t : in_box ns t -> length t = length ns.
Proof. intros H. induction H; simpl; auto. Qed.

(* ---- the whole run: any number of sweeps, any ranks, any pivots ---- *)
Lemma nth_firstn_own {A} (l : list A) : forall k j d, j < k -> nth j (firstn k l) d = nth j l d.
Proof. induction l as [|a l IH]; intros [|k] [|j] d H; simpl; try lia; auto. apply IH. lia. Qed.
Lemma nth_skipn_own {A} (l : list A) : forall k j d, nth j (skipn k l) d = nth (k + j) l d.
Proof. induction l as [|a l IH]; intros [|k] j d; simpl; auto. destruct j; reflexivity. Qed.
Lemma set_nth_length {A} k (v : A) l : k < length l -> length (set_nth k v l) = length l.
Proof.
  intros H. unfold set_nth. rewrite app_length, firstn_length. cbn [length]. rewrite skipn_length. lia.
Qed.
Lemma set_nth_same {A} k (v d : A) l : k < length l -> nth k (set_nth k v l) d = v.
Proof.
  intros H. unfold set_nth. rewrite app_nth2; rewrite firstn_length; [|lia].
  replace (k - Nat.min k (length l)) with 0 by lia. reflexivity.
Qed.
Lemma set_nth_other {A} k j (v d : A) l : k < length l -> j <> k -> nth j (set_nth k v l) d = nth j l d.
Proof.
  intros Hk H. unfold set_nth. destruct (Nat.lt_ge_cases j k) as [Hlt|Hge].
  - rewrite app_nth1 by (rewrite firstn_length; lia). apply nth_firstn_own. assumption.
  - rewrite app_nth2 by (rewrite firstn_length; lia). rewrite firstn_length.
    replace (Nat.min k (length l)) with k by lia.
    destruct (j - k) as [|m] eqn:E; [lia|]. cbn [nth]. rewrite nth_skipn_own. f_equal. lia.
Qed.

Lemma repeat_nth {A} (x d : A) n i : i < n -> nth i (repeat x n) d = x.
Proof. revert i. induction n; intros [|i] H; simpl; try lia; auto. apply IHn. lia. Qed.

Theorem cinit_inv N : N <> [] -> cinv N (cinit (length N)).
Proof.
  intros HN. assert (Hd : 0 < length N) by (destruct N; [congruence|simpl; lia]).
  unfold cinv, cinit. cbn [cL cR]. repeat split.
  - simpl. rewrite repeat_length. reflexivity.
  - rewrite app_length, repeat_length. simpl. lia.
  - intros k Hk. destruct k; [simpl; constructor; [constructor|constructor]|].
    cbn [nth]. destruct (Nat.lt_ge_cases k (length N)).
    + rewrite repeat_nth by assumption. constructor.
    + rewrite nth_overflow by (rewrite repeat_length; lia). constructor.
  - intros k Hk. destruct (Nat.lt_ge_cases k (length N)).
    + rewrite app_nth1 by (rewrite repeat_length; assumption). rewrite repeat_nth by assumption. constructor.
    + assert (k = length N) by lia. subst k. rewrite app_nth2 by (rewrite repeat_length; lia).
      rewrite repeat_length, Nat.sub_diag. cbn [nth]. rewrite skipn_all. constructor; [constructor|constructor].
Qed.

Theorem cross_step_inv N s c : cinv N s -> pivots_ok N s c -> cinv N (cross_step N s c).
Proof.
  intros [HlL [HlR [HL HR]]] Hp. destruct c as [k pv|k pv|k pv]; cbn [cross_step pivots_ok] in *.
  - destruct Hp as [Hk Hp]. unfold cinv. cbn [cL cR]. repeat split; auto.
    + rewrite set_nth_length; lia.
    + intros j Hj. destruct (Nat.eq_dec j (S k)) as [->|Hne].
      * rewrite set_nth_same by lia. apply left_update_in; [lia|apply HL; lia|assumption].
      * rewrite set_nth_other by lia. apply HL. assumption.
  - destruct Hp as [Hk Hp]. unfold cinv. cbn [cL cR]. repeat split; auto.
    + rewrite set_nth_length; lia.
    + intros j Hj. destruct (Nat.eq_dec j (S k)) as [->|Hne].
      * rewrite set_nth_same by lia. apply right_update_in; [lia|apply HR; lia|assumption].
      * rewrite set_nth_other by lia. apply HR. assumption.
  - destruct Hp as [Hk Hp]. unfold cinv. cbn [cL cR]. repeat split; auto.
    + rewrite set_nth_length; lia.
    + intros j Hj. destruct (Nat.eq_dec j k) as [->|Hne].
      * rewrite set_nth_same by lia. apply right_init_in; [lia|apply HR; lia|assumption].
      * rewrite set_nth_other by lia. apply HR. assumption.
Qed.

Fixpoint run_pivots_ok N (s : cstate) (cs : list cstep) : Prop :=
  match cs with [] => True | c :: t => pivots_ok N s c /\ run_pivots_ok N (cross_step N s c) t end.

Theorem cross_run_inv N cs : forall s, cinv N s -> run_pivots_ok N s cs -> cinv N (fold_left (cross_step N) cs s).
Proof.
  induction cs as [|c t IH]; intros s H Hok; [assumption|]. destruct Hok as [H1 H2].
  cbn [fold_left]. apply IH; [apply cross_step_inv; assumption|assumption].
Qed.

(* at every point of every run, the index matrix built for any bond contains only valid rows *)
Theorem cross_indices_in_range N cs k : N <> [] -> run_pivots_ok N (cinit (length N)) cs -> S k < length N ->
  all_in N (eval_at N (fold_left (cross_step N) cs (cinit (length N))) k).
Proof.
  intros HN Hok Hk. pose proof (cross_run_inv N cs _ (cinit_inv N HN) Hok) as [_ [_ [HL HR]]].
  unfold eval_at. apply eval_rows_in; [assumption|apply HL; lia|apply HR; lia].
Qed.
