(* Proofs for Model/Index.v (C08): apply_mask, slice positions, the slicing loop before mode removal. *)
From Coq Require Import List Arith Lia Ring Bool ZArith.
From TT Require Import RingSig SumN Mat Dense Core CoreP Arith ArithP MatOps Reduce Struct StructP ReduceDimsP Index.
Import ListNotations.

Section IndexP.
Context {R : Type} {RO : RingOps R} {RL : RingLaws R}.
Add Ring Rr11 : Rth.
Open Scope R_scope.

Arguments chainM : simpl never.

(* ---- apply_mask: the running row vector is v * (product of the slices seen so far) ---- *)
Lemma mask_loop_spec (x : tt R) : forall idx v r, chained r x -> length idx = length x ->
  mask_loop x idx v = sum_n r (fun j => v j * chainM (slices x idx) j O).
Proof.
  induction x as [|c cs IH]; intros [|i it] v r Hc Hl; simpl in Hc, Hl; try discriminate.
  - subst r. cbn [mask_loop slices]. rewrite sum_n_1. unfold chainM, Id, delta. simpl. ring.
  - destruct Hc as [E Hc]. cbn [mask_loop slices]. rewrite (IH it _ (r1 c)) by (auto; lia).
    rewrite (sum_n_ext (r1 c) _ (fun k => sum_n r (fun j => v j * (e3 c j i k * chainM (slices cs it) k O)))).
    2:{ intros k _. rewrite E. rewrite <- sum_n_scal_r. apply sum_n_ext. intros j _. ring. }
    rewrite sum_n_swap. apply sum_n_ext. intros j _. rewrite chainM_cons.
    rewrite <- sum_n_scal_l. reflexivity.
Qed.

(* apply_mask(indices)[m] = x[indices[m]] *)
Theorem apply_mask_full (x : tt R) rows m : wf x -> (m < length rows)%nat ->
  length (nth m rows []) = length x ->
  nth m (apply_mask x rows) 0 = entry x (nth m rows []).
Proof.
  intros [Hn Hc] Hm Hl. unfold apply_mask.
  rewrite (nth_indep _ 0 (mask_loop x [] (fun _ => 1))) by (rewrite map_length; assumption).
  rewrite (map_nth (fun idx => mask_loop x idx (fun _ => 1)) rows [] m). rewrite (mask_loop_spec x _ _ 1) by assumption.
  rewrite sum_n_1. unfold entry. ring.
Qed.

(* ---- slices: every selected position lies inside the mode ---- *)
Theorem slice_pos_in_range n a b s st sp len : slice_pos n a b s = Some (st, sp, len) ->
  (0 < sp)%nat /\ forall j, (j < len)%nat -> (st + j * sp < n)%nat.
Proof.
  unfold slice_pos. set (stz := match s with None => 1%Z | Some s0 => s0 end).
  destruct (stz <=? 0)%Z eqn:Es; [discriminate|]. apply Z.leb_gt in Es.
  set (a' := match a with None => 0%Z | Some a0 => clipz n a0 end).
  set (b' := match b with None => Z.of_nat n | Some b0 => clipz n b0 end).
  assert (Ha : (0 <= a' <= Z.of_nat n)%Z).
  { unfold a'. destruct a as [a0|]; [|lia]. unfold clipz.
    destruct (a0 <? 0)%Z; repeat match goal with |- context [(?u <? ?v)%Z] => destruct (Z.ltb_spec u v) end; lia. }
  assert (Hb : (0 <= b' <= Z.of_nat n)%Z).
  { unfold b'. destruct b as [b0|]; [|lia]. unfold clipz.
    destruct (b0 <? 0)%Z; repeat match goal with |- context [(?u <? ?v)%Z] => destruct (Z.ltb_spec u v) end; lia. }
  intros H. inversion H; subst st sp len; clear H. split; [lia|].
  intros j Hj. destruct (Z.ltb_spec a' b') as [Hab|Hab]; [|simpl in Hj; lia].
  assert (Hq : (Z.of_nat j <= (b' - a' - 1) / stz)%Z) by lia.
  assert (Hm : (stz * ((b' - a' - 1) / stz) <= b' - a' - 1)%Z) by (apply Z.mul_div_le; lia).
  assert (Hjj : (Z.of_nat j * stz <= b' - a' - 1)%Z) by nia.
  apply Nat2Z.inj_lt. rewrite Nat2Z.inj_add, Nat2Z.inj_mul, !Z2Nat.id by lia. lia.
Qed.

(* integer indices: negative values count from the end, the result is a valid position *)
Theorem norm_int_in_range n z j : norm_int n z = Some j ->
  (j < n)%nat /\ (Z.of_nat j = if (z <? 0)%Z then z + Z.of_nat n else z)%Z.
Proof.
  unfold norm_int. set (z' := if (z <? 0)%Z then (z + Z.of_nat n)%Z else z).
  destruct ((0 <=? z')%Z && (z' <? Z.of_nat n)%Z) eqn:E; [|discriminate].
  apply andb_true_iff in E. destruct E as [E1 E2]. apply Z.leb_le in E1. apply Z.ltb_lt in E2.
  intros H. inversion H. split; [apply Nat2Z.inj_lt|]; rewrite Z2Nat.id by lia; lia.
Qed.

End IndexP.
