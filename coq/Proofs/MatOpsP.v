(* Proofs for Model/MatOps.v (C04): TT-matrix algebra = dense operator algebra. *)
From Coq Require Import List Arith Lia Ring Bool.
From TT Require Import RingSig SumN Mat Dense Core CoreP Arith ArithP MatOps.
Import ListNotations.

Section MatOpsP.
Context {R : Type} {RO : RingOps R} {RL : RingLaws R}.
Add Ring Rr5 : Rth.
Open Scope R_scope.
Arguments chainM : simpl never.

(* ---------- merged-mode view ---------- *)
Lemma divmod_merge i n j : (j < n)%nat -> ((i * n + j) / n = i /\ (i * n + j) mod n = j)%nat.
Proof.
  intros H. split.
  - rewrite Nat.div_add_l by lia. rewrite Nat.div_small by lia. lia.
  - rewrite Nat.add_comm, Nat.mod_add by lia. apply Nat.mod_small; lia.
Qed.

Lemma slices_flatM (x : ttm R) : forall is_ js, length is_ = length x -> Forall2 lt js (shapeN x) ->
  slices (flatM x) (merge_idx (shapeN x) is_ js) = slices4 x is_ js.
Proof.
  induction x as [|c cs IH]; intros [|i it] js Hl HF; simpl in *; try discriminate; auto.
  inversion HF as [|j n jt nt Hj HF' E1 E2]; subst. cbn [merge_idx slices slices4 flatM map].
  fold (flatM cs). rewrite IH by (auto; lia). cbn [r1 flat4 e3].
  destruct (divmod_merge i (nm c) j Hj) as [-> ->]. reflexivity.
Qed.

Lemma slices4_unflatM ms : forall ns (z : tt R) is_ js,
  length ns = length ms -> length z = length ms -> length is_ = length ms -> length js = length ms ->
  slices4 (unflatM ms ns z) is_ js = slices z (merge_idx ns is_ js).
Proof.
  induction ms as [|m mt IH]; intros [|n nt] [|c ct] [|i it] [|j jt] H1 H2 H3 H4; simpl in *; try discriminate; auto.
  rewrite IH by lia. reflexivity.
Qed.

Lemma flatM_chained (x : ttm R) : forall r, chained4 r x -> chained r (flatM x).
Proof. induction x as [|c cs IH]; intros r H; simpl in *; auto. destruct H; split; auto. Qed.
Lemma flatM_wf (x : ttm R) : wf4 x -> wf (flatM x).
Proof. intros [Hn Hc]. split; [destruct x; [congruence|discriminate]|apply flatM_chained; auto]. Qed.
Lemma flatM_length (x : ttm R) : length (flatM x) = length x.
Proof. apply map_length. Qed.

Lemma unflatM_chained ms : forall ns (z : tt R) r, length ns = length ms -> length z = length ms ->
  chained r z -> chained4 r (unflatM ms ns z).
Proof.
  induction ms as [|m mt IH]; intros [|n nt] [|c ct] r H1 H2 Hc; simpl in *; try discriminate; auto.
  destruct Hc; split; auto.
Qed.
Lemma unflatM_shapes ms : forall ns (z : tt R), length ns = length ms -> length z = length ms ->
  shapeM (unflatM ms ns z) = ms /\ shapeN (unflatM ms ns z) = ns.
Proof.
  induction ms as [|m mt IH]; intros [|n nt] [|c ct] H1 H2; simpl in *; try discriminate; auto.
  destruct (IH nt ct) as [E1 E2]; try lia. unfold shapeM, shapeN in *. rewrite E1, E2. auto.
Qed.

Lemma merge_length ns : forall is_ js, length is_ = length ns -> length js = length ns ->
  length (merge_idx ns is_ js) = length ns.
Proof. induction ns; intros [|i it] [|j jt] H1 H2; simpl in *; try discriminate; auto. Qed.

Lemma entry4_flat (x : ttm R) is_ js : length is_ = length x -> Forall2 lt js (shapeN x) ->
  entry4 x is_ js = entry (flatM x) (merge_idx (shapeN x) is_ js).
Proof. intros. unfold entry4, entry. rewrite slices_flatM; auto. Qed.

Lemma Forall2_length {A B} (P : A -> B -> Prop) l l' : Forall2 P l l' -> length l = length l'.
Proof. induction 1; simpl; auto. Qed.

Lemma shapeN_length (x : ttm R) : length (shapeN x) = length x. Proof. apply map_length. Qed.
Lemma shapeM_length (x : ttm R) : length (shapeM x) = length x. Proof. apply map_length. Qed.

(* generic transfer: a TT operation lifted through the merged mode *)
Lemma lift2_entry (f : tt R -> tt R -> tt R) (x y : ttm R) is_ js :
  length (f (flatM x) (flatM y)) = length x -> length is_ = length x -> Forall2 lt js (shapeN x) ->
  entry4 (lift2 f x y) is_ js = entry (f (flatM x) (flatM y)) (merge_idx (shapeN x) is_ js).
Proof.
  intros Hf Hi HF. unfold entry4, entry, lift2.
  rewrite slices4_unflatM; auto; rewrite ?shapeN_length, ?shapeM_length; auto.
  apply Forall2_length in HF. rewrite shapeN_length in HF. exact HF.
Qed.
Lemma lift1_entry (f : tt R -> tt R) (x : ttm R) is_ js :
  length (f (flatM x)) = length x -> length is_ = length x -> Forall2 lt js (shapeN x) ->
  entry4 (lift1 f x) is_ js = entry (f (flatM x)) (merge_idx (shapeN x) is_ js).
Proof.
  intros Hf Hi HF. unfold entry4, entry, lift1.
  rewrite slices4_unflatM; auto; rewrite ?shapeN_length, ?shapeM_length; auto.
  apply Forall2_length in HF. rewrite shapeN_length in HF. exact HF.
Qed.

Section Bin.
Variables (x y : ttm R) (is_ js : list nat).
Hypothesis Hx : wf4 x.
Hypothesis Hy : wf4 y.
Hypothesis Hl : length y = length x.
Hypothesis HN : shapeN y = shapeN x.
Hypothesis Hi : length is_ = length x.
Hypothesis HF : Forall2 lt js (shapeN x).

Let Hm : length (merge_idx (shapeN x) is_ js) = length (flatM x).
Proof.
  rewrite merge_length, shapeN_length, flatM_length; auto; rewrite ?shapeN_length; auto.
  apply Forall2_length in HF. rewrite shapeN_length in HF. exact HF.
Qed.

Theorem add4_full : entry4 (add4 x y) is_ js = entry4 x is_ js + entry4 y is_ js.
Proof.
  unfold add4. rewrite lift2_entry; auto.
  - rewrite add_full; auto using flatM_wf; rewrite ?flatM_length; auto.
    rewrite (entry4_flat x), (entry4_flat y); auto; try congruence; try (rewrite HN; reflexivity).
  - unfold add. rewrite add_rec_length; rewrite !flatM_length; auto.
Qed.
Theorem sub4_full : entry4 (sub4 x y) is_ js = entry4 x is_ js - entry4 y is_ js.
Proof.
  unfold sub4. rewrite lift2_entry; auto.
  - rewrite sub_full; auto using flatM_wf; rewrite ?flatM_length; auto.
    rewrite (entry4_flat x), (entry4_flat y); auto; try congruence; try (rewrite HN; reflexivity).
  - unfold sub, add. rewrite add_rec_length; rewrite ?neg_first_length, !flatM_length; auto.
Qed.
Lemma mul_length (a : tt R) : forall b : tt R, length b = length a -> length (mul a b) = length a.
Proof. induction a; intros [|? ?] H; simpl in *; try discriminate; auto. Qed.
Theorem mul4_full : entry4 (mul4 x y) is_ js = entry4 x is_ js * entry4 y is_ js.
Proof.
  unfold mul4. rewrite lift2_entry; auto.
  - rewrite mul_full; auto using flatM_wf; rewrite ?flatM_length; auto.
    rewrite (entry4_flat x), (entry4_flat y); auto; try congruence; try (rewrite HN; reflexivity).
  - rewrite mul_length; rewrite !flatM_length; auto.
Qed.
End Bin.

Section Un.
Variables (x : ttm R) (is_ js : list nat).
Hypothesis Hx : wf4 x.
Hypothesis Hi : length is_ = length x.
Hypothesis HF : Forall2 lt js (shapeN x).
Let Hm : length (merge_idx (shapeN x) is_ js) = length (flatM x).
Proof.
  rewrite merge_length, shapeN_length, flatM_length; auto; rewrite ?shapeN_length; auto.
  apply Forall2_length in HF. rewrite shapeN_length in HF. exact HF.
Qed.
Let Hne : flatM x <> [].
Proof. destruct Hx as [Hn _]. destruct x; [congruence|discriminate]. Qed.
Let Hsl : length (shape (flatM x)) = length x.
Proof. unfold shape. rewrite map_length. apply flatM_length. Qed.

Theorem neg4_full : entry4 (neg4 x) is_ js = - entry4 x is_ js.
Proof.
  unfold neg4. rewrite lift1_entry; auto.
  - rewrite neg_full; auto. rewrite (entry4_flat x); auto.
  - unfold neg. rewrite neg_first_length. apply flatM_length.
Qed.
Theorem add_scalar4_full s : entry4 (add_scalar4 x s) is_ js = entry4 x is_ js + s.
Proof.
  unfold add_scalar4. rewrite lift1_entry; auto.
  - rewrite add_scalar_full; auto using flatM_wf. rewrite (entry4_flat x); auto.
  - unfold add_scalar, add. rewrite add_rec_length; [apply flatM_length|].
    unfold const_tt. rewrite const_rec_length. unfold shape. apply map_length.
Qed.
Theorem sub_scalar4_full s : entry4 (sub_scalar4 x s) is_ js = entry4 x is_ js - s.
Proof.
  unfold sub_scalar4. rewrite lift1_entry; auto.
  - rewrite sub_scalar_full; auto using flatM_wf. rewrite (entry4_flat x); auto.
  - unfold sub_scalar, add. rewrite add_rec_length; [apply flatM_length|].
    unfold const_tt. rewrite const_rec_length. unfold shape. apply map_length.
Qed.
Theorem rsub_scalar4_full s : entry4 (rsub_scalar4 x s) is_ js = s - entry4 x is_ js.
Proof.
  unfold rsub_scalar4. rewrite lift1_entry; auto.
  - rewrite rsub_scalar_full; auto using flatM_wf. rewrite (entry4_flat x); auto.
  - unfold rsub_scalar, sub_scalar, add. rewrite neg_first_length, add_rec_length; [apply flatM_length|].
    unfold const_tt. rewrite const_rec_length. unfold shape. apply map_length.
Qed.
Theorem mul_scalar4_full s : entry4 (mul_scalar4 x s) is_ js = s * entry4 x is_ js.
Proof.
  unfold mul_scalar4. rewrite lift1_entry; auto.
  - rewrite mul_scalar_full; auto using flatM_wf. rewrite (entry4_flat x); auto.
  - unfold mul_scalar. destruct (reqb s 0).
    + unfold zeros_tt. rewrite map_length. exact Hsl.
    + destruct (flatM x) eqn:E; [congruence|]. simpl. rewrite <- flatM_length, E. reflexivity.
Qed.
Theorem div_scalar4_full s sinv : s * sinv = 1 -> s * entry4 (div_scalar4 x sinv) is_ js = entry4 x is_ js.
Proof.
  intros Hs. unfold div_scalar4. rewrite lift1_entry; auto.
  - rewrite (div_scalar_full _ s sinv); auto. rewrite (entry4_flat x); auto.
  - unfold div_scalar. destruct (flatM x) eqn:E; [congruence|]. simpl. rewrite <- flatM_length, E. reflexivity.
Qed.
End Un.

(* ---------- transpose ---------- *)
Theorem transpose_full (A : ttm R) : forall is_ js, entry4 (transpose A) is_ js = entry4 A js is_.
Proof.
  unfold entry4. intros is_ js. f_equal.
  revert is_ js. induction A as [|c cs IH]; intros [|i it] [|j jt]; simpl; auto.
  rewrite IH. reflexivity.
Qed.
Lemma transpose_chained (A : ttm R) : forall r, chained4 r A -> chained4 r (transpose A).
Proof. induction A as [|c cs IH]; intros r H; simpl in *; auto. destruct H; split; auto. Qed.
Lemma transpose_wf (A : ttm R) : wf4 A -> wf4 (transpose A).
Proof. intros [Hn Hc]. split; [destruct A; [congruence|discriminate]|apply transpose_chained; auto]. Qed.

(* ---------- matrix-vector ---------- *)
Fixpoint mv_fs (A : ttm R) (x : tt R) (is_ : list nat) : list fsl :=
  match A, x, is_ with
  | a :: At, b :: xt, i :: it =>
      ((q1 a * r1 b)%nat, nm a,
       fun k => kron (r0 b) (r1 b) (fun p q => e4 a p i k q) (fun p q => e3 b p k q)) :: mv_fs At xt it
  | _, _, _ => []
  end.

Lemma matvec_slices (A : ttm R) : forall (x : tt R) is_, length x = length A -> length is_ = length A ->
  slices (matvec A x) is_ = summed (mv_fs A x is_).
Proof.
  induction A as [|a At IH]; intros [|b xt] [|i it] H1 H2; simpl in *; try discriminate; auto.
  rewrite IH by lia. reflexivity.
Qed.
Lemma mv_counts (A : ttm R) : forall (x : tt R) is_, length x = length A -> length is_ = length A ->
  counts (mv_fs A x is_) = shapeN A.
Proof.
  induction A as [|a At IH]; intros [|b xt] [|i it] H1 H2; simpl in *; try discriminate; auto.
  unfold counts in *. simpl. rewrite IH by lia. reflexivity.
Qed.
Lemma mv_pick (A : ttm R) : forall (x : tt R) is_ js rb, length x = length A -> length is_ = length A ->
  length js = length A -> chained rb x ->
  pick (mv_fs A x is_) js = kronL rb (slices4 A is_ js) (slices x js).
Proof.
  induction A as [|a At IH]; intros [|b xt] [|i it] [|j jt] rb H1 H2 H3 Hc; simpl in *; try discriminate; auto.
  destruct Hc as [E Hc]. rewrite (IH xt it jt (r1 b)) by (auto; lia). subst rb. reflexivity.
Qed.

Lemma slices4_length (x : ttm R) : forall is_ js, length is_ = length x -> length js = length x ->
  length (slices4 x is_ js) = length x.
Proof. induction x; intros [|i it] [|j jt] H1 H2; simpl in *; try discriminate; auto. Qed.

Theorem matvec_full (A : ttm R) (x : tt R) is_ :
  wf4 A -> wf x -> length x = length A -> length is_ = length A ->
  entry (matvec A x) is_ = sum_idx (shapeN A) (fun js => entry4 A is_ js * entry x js).
Proof.
  intros [HnA HcA] [Hnx Hcx] Hl Hi. unfold entry.
  rewrite matvec_slices by auto. rewrite chainM_sum_push. rewrite mv_counts by auto.
  apply sum_idx_ext. intros js Hjl _. rewrite shapeN_length in Hjl.
  rewrite (mv_pick A x is_ js 1%nat) by auto.
  rewrite kronL_chain; [|rewrite slices4_length, slices_length; auto; congruence|lia].
  rewrite (chained_lastk x 1%nat js) by (auto; congruence).
  unfold kron, entry4. reflexivity.
Qed.

Lemma matvec_chained (A : ttm R) : forall (x : tt R) ra rb, length x = length A ->
  chained4 ra A -> chained rb x -> chained (ra * rb) (matvec A x).
Proof.
  induction A as [|a At IH]; intros [|b xt] ra rb Hl HA Hx; simpl in *; try discriminate.
  - subst. reflexivity.
  - destruct HA as [Ea HA], Hx as [Eb Hx]. split; [subst; reflexivity|]. apply IH; auto.
Qed.
Theorem matvec_wf (A : ttm R) (x : tt R) : wf4 A -> wf x -> length x = length A -> wf (matvec A x).
Proof.
  intros [HnA HcA] [Hnx Hcx] Hl. split.
  - destruct A, x; simpl in *; try congruence; discriminate.
  - apply (matvec_chained A x 1%nat 1%nat); auto.
Qed.
Theorem matvec_shape (A : ttm R) : forall x : tt R, length x = length A -> shape (matvec A x) = shapeM A.
Proof. induction A as [|a At IH]; intros [|b xt] H; simpl in *; try discriminate; auto. f_equal. apply IH. lia. Qed.
Theorem matvec_ranks (A : ttm R) : forall x : tt R, length x = length A ->
  map r1 (matvec A x) = map (fun ab => (fst ab * snd ab)%nat) (combine (map q1 A) (map r1 x)).
Proof. induction A as [|a At IH]; intros [|b xt] H; simpl in *; try discriminate; auto. f_equal. apply IH. lia. Qed.

(* ---------- vector-matrix ---------- *)
Lemma vecmat_is_matvec_tr (x : tt R) : forall A : ttm R, vecmat x A = matvec (transpose A) x.
Proof.
  induction x as [|b xt IH]; intros [|a At]; simpl; auto.
  rewrite IH. reflexivity.
Qed.

Theorem vecmat_full (x : tt R) (A : ttm R) js :
  wf4 A -> wf x -> length x = length A -> length js = length A ->
  entry (vecmat x A) js = sum_idx (shapeM A) (fun is_ => entry x is_ * entry4 A is_ js).
Proof.
  intros HA Hx Hl Hj. rewrite vecmat_is_matvec_tr.
  rewrite matvec_full; auto using transpose_wf; unfold transpose; rewrite ?map_length; auto.
  replace (shapeN (map tr_core A)) with (shapeM A).
  2:{ unfold shapeN, shapeM. rewrite map_map. reflexivity. }
  apply sum_idx_ext. intros is_ _ _. fold (transpose A). rewrite transpose_full. ring.
Qed.

(* ---------- matrix-matrix ---------- *)
Fixpoint mm_fs (A B : ttm R) (is_ ns : list nat) : list fsl :=
  match A, B, is_, ns with
  | a :: At, b :: Bt, i :: it, n :: nt =>
      ((q1 a * q1 b)%nat, nm a,
       fun k => kron (q0 b) (q1 b) (fun p q => e4 a p i k q) (fun p q => e4 b p k n q)) :: mm_fs At Bt it nt
  | _, _, _, _ => []
  end.
Lemma matmat_slices (A : ttm R) : forall (B : ttm R) is_ ns, length B = length A -> length is_ = length A ->
  length ns = length A -> slices4 (matmat A B) is_ ns = summed (mm_fs A B is_ ns).
Proof.
  induction A as [|a At IH]; intros [|b Bt] [|i it] [|n nt] H1 H2 H3; simpl in *; try discriminate; auto.
  rewrite IH by lia. reflexivity.
Qed.
Lemma mm_counts (A : ttm R) : forall (B : ttm R) is_ ns, length B = length A -> length is_ = length A ->
  length ns = length A -> counts (mm_fs A B is_ ns) = shapeN A.
Proof.
  induction A as [|a At IH]; intros [|b Bt] [|i it] [|n nt] H1 H2 H3; simpl in *; try discriminate; auto.
  unfold counts in *. simpl. rewrite IH by lia. reflexivity.
Qed.
Lemma mm_pick (A : ttm R) : forall (B : ttm R) is_ ns ks rb, length B = length A -> length is_ = length A ->
  length ns = length A -> length ks = length A -> chained4 rb B ->
  pick (mm_fs A B is_ ns) ks = kronL rb (slices4 A is_ ks) (slices4 B ks ns).
Proof.
  induction A as [|a At IH]; intros [|b Bt] [|i it] [|n nt] [|k kt] rb H1 H2 H3 H4 Hc; simpl in *; try discriminate; auto.
  destruct Hc as [E Hc]. rewrite (IH Bt it nt kt (q1 b)) by (auto; lia). subst rb. reflexivity.
Qed.

Theorem matmat_full (A B : ttm R) is_ ns :
  wf4 A -> wf4 B -> length B = length A -> length is_ = length A -> length ns = length A ->
  entry4 (matmat A B) is_ ns = sum_idx (shapeN A) (fun ks => entry4 A is_ ks * entry4 B ks ns).
Proof.
  intros [HnA HcA] [HnB HcB] Hl Hi Hn. unfold entry4.
  rewrite matmat_slices by auto. rewrite chainM_sum_push. rewrite mm_counts by auto.
  apply sum_idx_ext. intros ks Hkl _. rewrite shapeN_length in Hkl.
  rewrite (mm_pick A B is_ ns ks 1%nat) by auto.
  rewrite kronL_chain; [|rewrite !slices4_length; auto; congruence|lia].
  rewrite (chained4_lastk B 1%nat ks ns) by (auto; congruence).
  unfold kron. reflexivity.
Qed.
Lemma matmat_chained (A : ttm R) : forall (B : ttm R) ra rb, length B = length A ->
  chained4 ra A -> chained4 rb B -> chained4 (ra * rb) (matmat A B).
Proof.
  induction A as [|a At IH]; intros [|b Bt] ra rb Hl HA HB; simpl in *; try discriminate.
  - subst. reflexivity.
  - destruct HA as [Ea HA], HB as [Eb HB]. split; [subst; reflexivity|]. apply IH; auto.
Qed.
Theorem matmat_wf (A B : ttm R) : wf4 A -> wf4 B -> length B = length A -> wf4 (matmat A B).
Proof.
  intros [HnA HcA] [HnB HcB] Hl. split.
  - destruct A, B; simpl in *; try congruence; discriminate.
  - apply (matmat_chained A B 1%nat 1%nat); auto.
Qed.
Theorem matmat_ranks (A : ttm R) : forall B : ttm R, length B = length A ->
  map q1 (matmat A B) = map (fun ab => (fst ab * snd ab)%nat) (combine (map q1 A) (map q1 B)).
Proof. induction A as [|a At IH]; intros [|b Bt] H; simpl in *; try discriminate; auto. f_equal. apply IH. lia. Qed.

(* ---------- TT-matrix times dense array with leading batch dimensions ---------- *)
Lemma dmv_loop_spec (x : ttm R) : forall v ms r0_, chained4 r0_ x -> length ms = length x ->
  dmv_loop x v ms =
  sum_idx (shapeN x) (fun ns => sum_n r0_ (fun r => v r ns * chainM (slices4 x ms ns) r O)).
Proof.
  induction x as [|c cs IH]; intros v [|m mt] r0_ Hc Hl; simpl in *; try discriminate.
  - subst r0_. rewrite sum_n_1. unfold chainM. simpl. unfold Id, delta. simpl. ring.
  - destruct Hc as [E Hc]. rewrite (IH _ mt (q1 c)) by (auto; lia).
    (* swap sums: n out, (ns', r') in *)
    rewrite (sum_idx_ext (shapeN cs) _
      (fun ns' => sum_n (nm c) (fun n => sum_n r0_ (fun r => v r (n :: ns') *
          sum_n (q1 c) (fun r' => e4 c r m n r' * chainM (slices4 cs mt ns') r' O))))).
    2:{ intros ns' _ _.
        rewrite (sum_n_ext (q1 c) _ (fun r' => sum_n (nm c) (fun n => sum_n (q0 c) (fun r =>
                  v r (n :: ns') * e4 c r m n r' * chainM (slices4 cs mt ns') r' O)))).
        2:{ intros r' _. rewrite <- sum_n_scal_r. apply sum_n_ext. intros n _.
            rewrite <- sum_n_scal_r. reflexivity. }
        rewrite sum_n_swap. apply sum_n_ext. intros n _.
        rewrite sum_n_swap. rewrite E. apply sum_n_ext. intros r _.
        rewrite <- sum_n_scal_l. apply sum_n_ext. intros r' _. ring. }
    rewrite sum_idx_sum_n_swap. apply sum_n_ext. intros n _.
    apply sum_idx_ext. intros ns' _ _. apply sum_n_ext. intros r _.
    rewrite chainM_cons. reflexivity.
Qed.

Theorem dense_matvec_full (A : ttm R) (X : dense R) b ms :
  wf4 A -> length ms = length A -> length b = (length (dshape X) - length A)%nat ->
  dget (dense_matvec A X) (b ++ ms) = sum_idx (shapeN A) (fun ns => entry4 A ms ns * dget X (b ++ ns)).
Proof.
  intros [Hn Hc] Hm Hb. unfold dense_matvec. cbn [dget].
  rewrite <- Hb. rewrite firstn_app, Nat.sub_diag, firstn_all. cbn [firstn]. rewrite app_nil_r.
  rewrite skipn_app, Nat.sub_diag, skipn_all. cbn [skipn app].
  rewrite (dmv_loop_spec A _ ms 1%nat) by auto.
  apply sum_idx_ext. intros ns _ _. rewrite sum_n_1. unfold entry4. ring.
Qed.

(* ---------- TT linear layer ---------- *)
Lemma bidx_al_same ns : forall idx, length idx = length ns -> bidx_al ns ns idx = idx.
Proof.
  induction ns as [|n t IH]; intros [|i it] H; simpl in *; try discriminate; auto.
  rewrite Nat.eqb_refl, IH by lia. reflexivity.
Qed.
Theorem forward_affine (W : ttm R) (bias X : dense R) b ms :
  wf4 W -> length ms = length W -> length b = (length (dshape X) - length W)%nat ->
  (length W <= length (dshape X))%nat -> dshape bias = shapeM W ->
  dget (forward W bias X) (b ++ ms) =
    sum_idx (shapeN W) (fun ns => entry4 W ms ns * dget X (b ++ ns)) + dget bias ms.
Proof.
  intros HW Hm Hb Hd Hbias. unfold forward, dmap2. cbn [dget dshape].
  rewrite dense_matvec_full by auto. f_equal. f_equal.
  unfold bidx, dense_matvec. cbn [dshape]. rewrite Hbias.
  set (pre := firstn (length (dshape X) - length W) (dshape X)).
  assert (Hp : length pre = length b) by (unfold pre; rewrite firstn_length; lia).
  replace (length (pre ++ shapeM W) - length (shapeM W))%nat with (length pre) by (rewrite app_length; lia).
  rewrite skipn_app, skipn_all, Nat.sub_diag. cbn [skipn app].
  rewrite Hp. rewrite skipn_app, skipn_all, Nat.sub_diag. cbn [skipn app].
  apply bidx_al_same. rewrite shapeM_length. exact Hm.
Qed.

(* ---------- identity operator ---------- *)
Theorem eye_full ns : forall is_ js, length is_ = length ns -> length js = length ns ->
  entry4 (eye_ttm ns) is_ js = fold_right (fun ij acc => delta (fst ij) (snd ij) * acc) 1 (combine is_ js).
Proof.
  unfold entry4. induction ns as [|n t IH]; intros [|i it] [|j jt] H1 H2; simpl in H1, H2; try discriminate.
  - reflexivity.
  - cbn [eye_ttm map slices4 combine fold_right fst snd]. rewrite chainM_cons. cbn [q1 eye_core e4].
    rewrite sum_n_1. unfold eye_ttm in IH. rewrite IH by lia. reflexivity.
Qed.

End MatOpsP.
