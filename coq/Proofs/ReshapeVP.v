(* C10 value level: merging, exact splitting and exact swapping of adjacent cores preserve every entry (at the re-indexed
   position), and merging preserves the row-major position - so every composition of such steps computes torch.reshape /
   torch.permute of the dense value exactly. *)
From Coq Require Import List Arith Lia Ring Bool.
From TT Require Import RingSig SumN Mat Dense Core CoreP Arith ArithP MatOps MatOpsP Reduce ReduceP ReduceDimsP ReshapeV.
Import ListNotations.

Section ReshapeVP.
Context {R : Type} {RO : RingOps R} {RL : RingLaws R}.
Add Ring Rr10 : Rth.
Open Scope R_scope.

Arguments chainM : simpl never.

Lemma merge_chain : forall k (x : tt R) idx p q,
  (k + 1 < length x)%nat -> length idx = length x -> (nth (k + 1) idx 0 < nth (k + 1) (shape x) 0)%nat ->
  chainM (slices (merge_at k x) (merge_idx_at k (shape x) idx)) p q = chainM (slices x idx) p q.
Proof.
  induction k as [|k IH]; intros x idx p q Hk Hi Hj.
  - destruct x as [|a [|b t]]; simpl in Hk; try lia.
    destruct idx as [|i [|j it]]; simpl in Hi; try lia.
    cbn [nth Nat.add shape map] in Hj.
    cbn [merge_at merge_idx_at shape map slices]. rewrite chainM_merge2.
    apply chainM_head_ext. intros p' q'. cbn [merge2 r1 e3 nn]. unfold mmul.
    destruct (divmod_merge i (nn b) j Hj) as [-> ->]. reflexivity.
  - destruct x as [|c t]; simpl in Hk; try lia. destruct idx as [|i it]; simpl in Hi; try lia.
    cbn [merge_at merge_idx_at shape map slices]. rewrite !chainM_cons. apply sum_n_ext. intros l _.
    fold (shape t). rewrite IH; auto; try lia.
Qed.
Theorem merge_entry k (x : tt R) idx :
  (k + 1 < length x)%nat -> length idx = length x -> (nth (k + 1) idx 0 < nth (k + 1) (shape x) 0)%nat ->
  entry (merge_at k x) (merge_idx_at k (shape x) idx) = entry x idx.
Proof. intros. unfold entry. apply merge_chain; assumption. Qed.
Lemma merge_at_shape : forall k (x : tt R), shape (merge_at k x) = merge_shape k (shape x).
Proof.
  induction k as [|k IH]; intros [|a [|b t]]; cbn [merge_at merge_shape shape map]; auto.
  - f_equal. apply (IH []).
  - f_equal. apply (IH (b :: t)).
Qed.

(* the merged index sits at the same row-major position *)
Lemma flat_merge : forall k ns idx, (k + 1 < length ns)%nat -> length idx = length ns ->
  flat_pos (merge_shape k ns) (merge_idx_at k ns idx) = flat_pos ns idx.
Proof.
  induction k as [|k IH]; intros ns idx Hk Hi.
  - destruct ns as [|na [|nb nt]]; simpl in Hk; try lia. destruct idx as [|i [|j it]]; simpl in Hi; try lia.
    cbn [merge_shape merge_idx_at flat_pos fold_right]. nia.
  - destruct ns as [|n nt]; simpl in Hk; try lia. destruct idx as [|i it]; simpl in Hi; try lia.
    cbn [merge_shape merge_idx_at flat_pos]. rewrite IH by lia. f_equal. f_equal.
    clear. revert nt. induction k as [|k IHk]; intros [|a [|b t]]; cbn [merge_shape fold_right]; auto; try lia.
    + rewrite (IHk []). reflexivity.
    + rewrite (IHk (b :: t)). reflexivity.
Qed.

Lemma split_chain : forall k (x : tt R) (a b : core3 R) idx p q,
  (k < length x)%nat -> length idx = S (length x) -> exact_split (nth k x a) a b -> (nth (k + 1) idx 0 < nn b)%nat ->
  chainM (slices (split_at k a b x) idx) p q = chainM (slices x (merge_idx_at k (shape (split_at k a b x)) idx)) p q.
Proof.
  induction k as [|k IH]; intros x a b idx p q Hk Hi Hs Hj.
  - destruct x as [|c t]; simpl in Hk; try lia. destruct idx as [|i [|j it]]; simpl in Hi; try lia.
    cbn [nth] in Hs. cbn [nth Nat.add] in Hj. destruct Hs as (E0 & E1 & E2 & En & Hc).
    cbn [split_at shape map merge_idx_at slices]. rewrite chainM_merge2. rewrite E1.
    apply chainM_head_ext. intros p' q'. unfold mmul. apply Hc. exact Hj.
  - destruct x as [|c t]; simpl in Hk; try lia. destruct idx as [|i it]; simpl in Hi; try lia.
    cbn [split_at shape map merge_idx_at slices]. rewrite !chainM_cons. apply sum_n_ext. intros l _.
    fold (shape (split_at k a b t)). rewrite IH; auto; try lia.
Qed.
(* replacing core k by any exact factorisation (a, b): the entry at (.., i, j, ..) is the old entry at (.., i*n_b + j, ..) *)
Theorem split_entry k (x : tt R) (a b : core3 R) idx :
  (k < length x)%nat -> length idx = S (length x) -> exact_split (nth k x a) a b -> (nth (k + 1) idx 0 < nn b)%nat ->
  entry (split_at k a b x) idx = entry x (merge_idx_at k (shape (split_at k a b x)) idx).
Proof. intros. unfold entry. apply split_chain; assumption. Qed.

Lemma swap_chain : forall k (x : tt R) (a' b' : core3 R) idx p q,
  (k + 1 < length x)%nat -> length idx = length x -> exact_swap (nth k x a') (nth (k + 1) x a') a' b' ->
  chainM (slices (swap_at k a' b' x) (swap_idx k idx)) p q = chainM (slices x idx) p q.
Proof.
  induction k as [|k IH]; intros x a' b' idx p q Hk Hi Hs.
  - destruct x as [|a [|b t]]; simpl in Hk; try lia. destruct idx as [|i [|j it]]; simpl in Hi; try lia.
    cbn [nth Nat.add] in Hs. destruct Hs as (E0 & E1 & E2 & En & En' & Hc).
    cbn [swap_at swap_idx slices]. rewrite !chainM_merge2. rewrite E1.
    apply chainM_head_ext. intros p' q'. unfold mmul. apply Hc.
  - destruct x as [|c t]; simpl in Hk; try lia. destruct idx as [|i it]; simpl in Hi; try lia.
    cbn [swap_at swap_idx slices]. rewrite !chainM_cons. apply sum_n_ext. intros l _.
    rewrite IH; auto; try lia.
Qed.
(* permute's bubble step: exchanging modes k, k+1 through any exact re-factorisation of the transposed supercore *)
Theorem swap_entry k (x : tt R) (a' b' : core3 R) idx :
  (k + 1 < length x)%nat -> length idx = length x -> exact_swap (nth k x a') (nth (k + 1) x a') a' b' ->
  entry (swap_at k a' b' x) (swap_idx k idx) = entry x idx.
Proof. intros. unfold entry. apply swap_chain; assumption. Qed.

(* merge2 is itself an exact split's inverse: splitting the merged core back into (a, b) is exact *)
Lemma merge2_split (a b : core3 R) : r0 b = r1 a -> exact_split (merge2 a b) a b.
Proof.
  intros H. repeat split; auto. intros p i j q Hj. cbn [merge2 e3].
  destruct (divmod_merge i (nn b) j Hj) as [-> ->]. reflexivity.
Qed.

End ReshapeVP.
