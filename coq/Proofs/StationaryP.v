(* Consistency of the local problems of the alternating solvers (C12 amen_solve, C13 division, C11 amen_mv):
   - the Petrov-Galerkin form of the Galerkin identity of LocalP.v (different trains on the two sides of the operator);
   - the local product applied to the k-th core of y is the projection of the dense product A y on the frame of x
     (what amen_mv / amen_mm assign to the new core, and the left-hand side of the local system of amen_solve);
   - the local right-hand side is the projection of b on the frame of x;
   - hence THE EXACT SOLUTION IS STATIONARY: if A x = b entry by entry, the k-th core of x solves the k-th local system
     exactly, at every position, for every order, mode sizes and rank profile - and likewise an exact quotient for the division. *)
From Coq Require Import List Arith Lia Ring Bool.
From TT Require Import RingSig SumN Mat Dense Core CoreP Arith ArithP MatOps MatOpsP Reduce ReduceP BilinearP Local Struct StructP ReduceDimsP FrameP LocalP OrthP GaugeP.
Import ListNotations.

Section StationaryP.
Context {R : Type} {RO : RingOps R} {RL : RingLaws R}.
Add Ring Rr60 : Rth.
Open Scope R_scope.
Arguments chainM : simpl never.

(* one step with unit cores of different rank pairs on the two sides *)
Lemma phi_fwd_units2 (T : nat -> nat -> nat -> R) (c : core4 R) ra rb ra' rb' l0 m0 L0 r0' n0 R0 L S R' :
  (l0 < ra)%nat -> (r0' < ra')%nat -> (m0 < mm c)%nat -> (n0 < nm c)%nat ->
  phi_fwd T (unit3 ra (mm c) rb l0 m0 L0) c (unit3 ra' (nm c) rb' r0' n0 R0) L S R'
  = delta L0 L * delta R0 R' * sum_n (q0 c) (fun s => T l0 s r0' * e4 c s m0 n0 S).
Proof.
  intros Hl Hr Hm Hn. unfold phi_fwd, unit3. cbn [r0 e3].
  rewrite (sum_n_ext (nm c) _ (fun n => delta n0 n * (delta L0 L * delta R0 R' * sum_n (q0 c) (fun s => T l0 s r0' * e4 c s m0 n S)))).
  2:{ intros n _.
      rewrite (sum_n_ext (mm c) _ (fun m => delta m0 m * (delta n0 n * (delta L0 L * delta R0 R' * sum_n (q0 c) (fun s => T l0 s r0' * e4 c s m n S))))).
      2:{ intros m _.
          rewrite (sum_n_ext ra _ (fun l => delta l0 l * (delta m0 m * (delta n0 n * (delta L0 L * delta R0 R' * sum_n (q0 c) (fun s => T l s r0' * e4 c s m n S)))))).
          2:{ intros l _.
              rewrite (sum_n_ext (q0 c) _ (fun s => (delta l0 l * delta m0 m * delta L0 L * delta n0 n * delta R0 R') * (T l s r0' * e4 c s m n S))).
              - rewrite sum_n_scal_l. ring.
              - intros s _.
                rewrite (sum_n_ext ra' _ (fun r => delta r0' r * (T l s r * (delta l0 l * delta m0 m * delta L0 L) * e4 c s m n S * (delta n0 n * delta R0 R')))).
                + rewrite sum_n_delta_l by exact Hr. ring.
                + intros r _. rewrite !conj_mul, !conj_delta. ring. }
          rewrite sum_n_delta_l by exact Hl. reflexivity. }
      rewrite sum_n_delta_l by exact Hm. reflexivity. }
  rewrite sum_n_delta_l by exact Hn. reflexivity.
Qed.

(* PETROV-GALERKIN IDENTITY: the local operator built from the interfaces of (x, A, y) is the bilinear form of A on the frame of x (left)
   and the frame of y (right) *)
Theorem local_mat_galerkin2 (xpre xpost ypre ypost : tt R) (Apre Apost : ttm R) (ck : core4 R) ra rb ra' rb' l0 m0 L0 r0' n0 R0 :
  length Apre = length xpre -> length ypre = length xpre -> length Apost = length xpost -> length ypost = length xpost ->
  (l0 < ra)%nat -> (r0' < ra')%nat -> (L0 < rb)%nat -> (R0 < rb')%nat -> (m0 < mm ck)%nat -> (n0 < nm ck)%nat ->
  chained rb xpost -> chained4 (q1 ck) Apost -> chained rb' ypost ->
  bilinear_form (xpre ++ unit3 ra (mm ck) rb l0 m0 L0 :: xpost) (Apre ++ ck :: Apost) (ypre ++ unit3 ra' (nm ck) rb' r0' n0 R0 :: ypost)
  = local_mat (phiF xpre Apre ypre ones3) ck (phiB xpost Apost ypost) l0 m0 L0 r0' n0 R0.
Proof.
  intros HlA Hly HlB Hly2 Hl Hr HL HR Hm Hn Hxpost HApost Hypost.
  unfold bilinear_form. change (fun _ _ _ : nat => 1) with (@ones3 R RO).
  rewrite bilin_app by (auto; lia). rewrite bilin_cons.
  rewrite (bilin_bck xpost Apost ypost _ rb (q1 ck) rb') by (auto; lia).
  rewrite (sum_n_ext rb _ (fun L => delta L0 L * sum_n (q1 ck) (fun S =>
             sum_n (q0 ck) (fun s => phiF xpre Apre ypre ones3 l0 s r0' * e4 ck s m0 n0 S) * phiB xpost Apost ypost L S R0))).
  2:{ intros L _. rewrite <- sum_n_scal_l. apply sum_n_ext. intros S _.
      rewrite (sum_n_ext rb' _ (fun R' => delta R0 R' * (delta L0 L * sum_n (q0 ck) (fun s => phiF xpre Apre ypre ones3 l0 s r0' * e4 ck s m0 n0 S) * phiB xpost Apost ypost L S R'))).
      - rewrite sum_n_delta_l by exact HR. ring.
      - intros R' _. rewrite (phi_fwd_units2 _ ck ra rb ra' rb' l0 m0 L0 r0' n0 R0 L S R' Hl Hr Hm Hn). ring. }
  rewrite sum_n_delta_l by exact HL.
  unfold local_mat. rewrite sum_n_swap. apply sum_n_ext. intros S _. rewrite <- sum_n_scal_r. apply sum_n_ext. intros s _. ring.
Qed.

(* ---- a train is the combination of the trains with unit cores at position k, with the entries of its k-th core as coefficients ---- *)
Lemma chained_mid (pre : tt R) : forall r (c c' : core3 R) post, r0 c' = r0 c -> r1 c' = r1 c ->
  chained r (pre ++ c :: post) -> chained r (pre ++ c' :: post).
Proof.
  induction pre as [|a t IH]; intros r c c' post H0 H1 H; cbn [app chained] in *.
  - destruct H as [Hr Hc]. split; [congruence|]. rewrite H1. exact Hc.
  - destruct H as [Hr Hc]. split; [exact Hr|]. apply (IH _ c); assumption.
Qed.
Lemma wf_mid (pre post : tt R) (c c' : core3 R) : r0 c' = r0 c -> r1 c' = r1 c -> wf (pre ++ c :: post) -> wf (pre ++ c' :: post).
Proof. intros H0 H1 [_ H]. split; [destruct pre; discriminate|]. apply (chained_mid pre 1%nat c c'); assumption. Qed.
Lemma nth_error_mid (pre post : tt R) c : nth_error (pre ++ c :: post) (length pre) = Some c.
Proof. induction pre as [|a t IH]; [reflexivity|]. exact IH. Qed.
Lemma phiL_mid (pre post : tt R) c c' js p : phiL (pre ++ c :: post) js (length pre) p = phiL (pre ++ c' :: post) js (length pre) p.
Proof. unfold phiL. rewrite !firstn_app, Nat.sub_diag, !firstn_all. reflexivity. Qed.
Lemma phiR_mid (pre post : tt R) c c' js q : phiR (pre ++ c :: post) js (length pre) q = phiR (pre ++ c' :: post) js (length pre) q.
Proof.
  unfold phiR. rewrite !skipn_app. replace (S (length pre) - length pre)%nat with 1%nat by lia.
  rewrite !(skipn_all2 pre) by lia. reflexivity.
Qed.

Lemma entry_unit_train (pre post : tt R) (g : core3 R) n r n0 R0 js : wf (pre ++ g :: post) -> length js = length (pre ++ g :: post) ->
  (r < r0 g)%nat -> (R0 < r1 g)%nat ->
  entry (pre ++ unit3 (r0 g) n (r1 g) r n0 R0 :: post) js
  = phiL (pre ++ g :: post) js (length pre) r * delta n0 (nth (length pre) js 0%nat) * phiR (pre ++ g :: post) js (length pre) R0.
Proof.
  intros W Hl Hr HR.
  rewrite (entry_frame (length pre) (pre ++ unit3 (r0 g) n (r1 g) r n0 R0 :: post) js (unit3 (r0 g) n (r1 g) r n0 R0)).
  - rewrite (sum_n_ext _ _ (fun p => delta r p * (phiL (pre ++ g :: post) js (length pre) p * delta n0 (nth (length pre) js 0%nat) * phiR (pre ++ g :: post) js (length pre) R0))).
    + cbn [unit3 r0]. rewrite sum_n_delta_l by exact Hr. reflexivity.
    + intros p _. cbn [unit3 r1 e3].
      rewrite (sum_n_ext _ _ (fun q => delta R0 q * (delta r p * phiL (pre ++ g :: post) js (length pre) p * delta n0 (nth (length pre) js 0%nat) * phiR (pre ++ g :: post) js (length pre) q))).
      * rewrite sum_n_delta_l by exact HR. ring.
      * intros q _. rewrite (phiL_mid pre post _ g), (phiR_mid pre post _ g). ring.
  - apply (wf_mid pre post g); [reflexivity|reflexivity|exact W].
  - apply nth_error_mid.
  - rewrite Hl, !app_length. reflexivity.
Qed.

Theorem unit_expansion (pre post : tt R) (g : core3 R) js : wf (pre ++ g :: post) -> length js = length (pre ++ g :: post) ->
  (nth (length pre) js 0 < nn g)%nat ->
  entry (pre ++ g :: post) js
  = sum_n (r0 g) (fun r => sum_n (nn g) (fun n => sum_n (r1 g) (fun R0 =>
      e3 g r n R0 * entry (pre ++ unit3 (r0 g) (nn g) (r1 g) r n R0 :: post) js))).
Proof.
  intros W Hl Hn.
  rewrite (entry_frame (length pre) (pre ++ g :: post) js g W (nth_error_mid pre post g) Hl).
  apply sum_n_ext. intros r Hr.
  rewrite (sum_n_ext (nn g) _ (fun n => delta (nth (length pre) js 0%nat) n * sum_n (r1 g) (fun R0 =>
      phiL (pre ++ g :: post) js (length pre) r * e3 g r n R0 * phiR (pre ++ g :: post) js (length pre) R0))).
  - rewrite sum_n_delta_l by exact Hn. reflexivity.
  - intros n _. rewrite <- sum_n_scal_l. apply sum_n_ext. intros R0 HR.
    rewrite (entry_unit_train pre post g (nn g) r n R0 js W Hl Hr HR).
    unfold delta. rewrite (Nat.eqb_sym n). ring.
Qed.

Lemma nth_mid_lt (ns1 ns2 : list nat) n : forall js, Forall2 lt js (ns1 ++ n :: ns2) -> (nth (length ns1) js 0 < n)%nat.
Proof.
  induction ns1 as [|a t IH]; intros js H; inversion H; subst; cbn [length nth]; [assumption|]. apply IH. assumption.
Qed.
Lemma sum1_idx2_swap a ms ns (F : nat -> list nat -> list nat -> R) :
  sum_idx ms (fun is_ => sum_idx ns (fun js => sum_n a (fun r => F r is_ js))) = sum_n a (fun r => sum_idx ms (fun is_ => sum_idx ns (fun js => F r is_ js))).
Proof.
  rewrite <- (sum_idx_sum_n_swap ms a (fun r is_ => sum_idx ns (fun js => F r is_ js))). apply sum_idx_ext; intros is_ _ _.
  apply (sum_idx_sum_n_swap ns a (fun r js => F r is_ js)).
Qed.
Lemma sum3_idx2_swap a b c ms ns (F : nat -> nat -> nat -> list nat -> list nat -> R) :
  sum_n a (fun r => sum_n b (fun n => sum_n c (fun q => sum_idx ms (fun is_ => sum_idx ns (fun js => F r n q is_ js)))))
  = sum_idx ms (fun is_ => sum_idx ns (fun js => sum_n a (fun r => sum_n b (fun n => sum_n c (fun q => F r n q is_ js))))).
Proof.
  rewrite (sum1_idx2_swap a ms ns (fun r is_ js => sum_n b (fun n => sum_n c (fun q => F r n q is_ js)))). apply sum_n_ext; intros r _.
  rewrite (sum1_idx2_swap b ms ns (fun n is_ js => sum_n c (fun q => F r n q is_ js))). apply sum_n_ext; intros n _.
  rewrite (sum1_idx2_swap c ms ns (fun q is_ js => F r n q is_ js)). reflexivity.
Qed.
Lemma chained_post (pre : tt R) : forall r c post, chained r (pre ++ c :: post) -> chained (r1 c) post.
Proof. induction pre as [|a t IH]; intros r c post H; cbn [app chained] in H; [exact (proj2 H)|]. exact (IH _ _ _ (proj2 H)). Qed.
Lemma chained4_post (pre : ttm R) : forall r c post, chained4 r (pre ++ c :: post) -> chained4 (q1 c) post.
Proof. induction pre as [|a t IH]; intros r c post H; cbn [app chained4] in H; [exact (proj2 H)|]. exact (IH _ _ _ (proj2 H)). Qed.

(* THE LOCAL PRODUCT IS THE PROJECTED DENSE PRODUCT: entry (l,m,L) of  local_product(Phi_k, A_k, Phi_(k+1), y_k)  with the interfaces of
   (x, A, y) is  < F_x e_(l,m,L), A y >  =  sum_{is,js} conj((F_x e)[is]) A[is,js] y[js]. *)
Theorem local_product_galerkin (xpre xpost ypre ypost : tt R) (Apre Apost : ttm R) (ck : core4 R) (g : core3 R) ra rb l m L :
  length Apre = length xpre -> length ypre = length xpre -> length Apost = length xpost -> length ypost = length xpost ->
  (l < ra)%nat -> (L < rb)%nat -> (m < mm ck)%nat -> nn g = nm ck ->
  wf (xpre ++ unit3 ra (mm ck) rb l m L :: xpost) -> wf4 (Apre ++ ck :: Apost) -> wf (ypre ++ g :: ypost) ->
  e3 (local_product (phiF xpre Apre ypre ones3) ck (phiB xpost Apost ypost) g) l m L
  = sum_idx (shapeM (Apre ++ ck :: Apost)) (fun is_ => sum_idx (shapeN (Apre ++ ck :: Apost)) (fun js =>
      rconj (entry (xpre ++ unit3 ra (mm ck) rb l m L :: xpost) is_) * entry4 (Apre ++ ck :: Apost) is_ js * entry (ypre ++ g :: ypost) js)).
Proof.
  intros HlA Hly HlB Hly2 Hl HL Hm Hng Wx WA Wy.
  set (A := Apre ++ ck :: Apost). set (E := xpre ++ unit3 ra (mm ck) rb l m L :: xpost).
  assert (Hxpost : chained rb xpost) by (apply (chained_post xpre 1%nat _ _ (proj2 Wx))).
  assert (HApost : chained4 (q1 ck) Apost) by (apply (chained4_post Apre 1%nat _ _ (proj2 WA))).
  assert (Hypost : chained (r1 g) ypost) by (apply (chained_post ypre 1%nat _ _ (proj2 Wy))).
  cbn [local_product e3].
  pose (F := fun r n R' is_ js => rconj (entry E is_) * entry4 A is_ js * (e3 g r n R' * entry (ypre ++ unit3 (r0 g) (nn g) (r1 g) r n R' :: ypost) js)).
  transitivity (sum_n (r0 g) (fun r => sum_n (nn g) (fun n => sum_n (r1 g) (fun R' =>
     sum_idx (shapeM A) (fun is_ => sum_idx (shapeN A) (fun js => F r n R' is_ js)))))).
  { apply sum_n_ext. intros r Hr. rewrite <- Hng. apply sum_n_ext. intros n Hn. apply sum_n_ext. intros R' HR.
    rewrite <- (local_mat_galerkin2 xpre xpost ypre ypost Apre Apost ck ra rb (r0 g) (r1 g) l m L r n R') by (auto; lia).
    rewrite bilinear_full.
    - fold A E. unfold F. rewrite <- Hng. rewrite <- sum_idx_scal_r. apply sum_idx_ext. intros is_ _ _.
      rewrite <- sum_idx_scal_r. apply sum_idx_ext. intros js _ _. ring.
    - exact Wx.
    - exact WA.
    - rewrite <- Hng. apply (wf_mid ypre ypost g); [reflexivity|reflexivity|exact Wy].
    - rewrite !app_length. simpl. lia.
    - rewrite !app_length. simpl. lia. }
  rewrite (sum3_idx2_swap _ _ _ _ _ F).
  apply sum_idx_ext. intros is_ _ _. apply sum_idx_ext. intros js Hlj HFj. unfold F.
  rewrite (unit_expansion ypre ypost g js Wy).
  - rewrite <- sum_n_scal_l. apply sum_n_ext. intros r _. rewrite <- sum_n_scal_l. apply sum_n_ext. intros n _.
    rewrite <- sum_n_scal_l. apply sum_n_ext. intros R' _. reflexivity.
  - rewrite Hlj. unfold A, shapeN. rewrite map_length, !app_length. simpl. lia.
  - rewrite Hng. replace (length ypre) with (length (map nm Apre)) by (rewrite map_length; lia).
    apply (nth_mid_lt (map nm Apre) (map nm Apost)). unfold A, shapeN in HFj. rewrite map_app in HFj. exact HFj.
Qed.

(* ---- the right-hand side: b enters as the operator to_ttm(b) (column modes of size 1) applied to the all-ones train of modes 1, so the
   interface recursions of the right-hand side are those of the operator with a trivial third leg ---- *)
Definition emb (P : mat R) : nat -> nat -> nat -> R := fun l s _ => P s l.
Definition u1 : core3 R := unit3 1 1 1 0 0 0.

Lemma u1_000 : e3 u1 0%nat 0%nat 0%nat = 1.
Proof. unfold u1, unit3. cbn [e3]. unfold delta. simpl. ring. Qed.

Lemma phib_fwd_emb (T : nat -> nat -> nat -> R) (P : mat R) (bc a : core3 R) L S : (forall l s, T l s 0%nat = P s l) ->
  phi_fwd T a (to_ttm_core bc) u1 L S 0%nat = phib_fwd P bc a S L.
Proof.
  intros HT. unfold phi_fwd, phib_fwd. cbn [to_ttm_core nm mm q0 e4]. change (r0 u1) with 1%nat. rewrite sum_n_1.
  rewrite (sum_n_ext (nn bc) _ (fun m => sum_n (r0 a) (fun l => sum_n (r0 bc) (fun s => P s l * e3 bc s m S * rconj (e3 a l m L))))).
  2:{ intros m _. apply sum_n_ext. intros l _. apply sum_n_ext. intros s _. rewrite sum_n_1, HT, u1_000. ring. }
  rewrite (sum_n_swap (nn bc) (r0 a)).
  rewrite (sum_n_ext (r0 a) _ (fun l => sum_n (r0 bc) (fun s => sum_n (nn bc) (fun m => P s l * e3 bc s m S * rconj (e3 a l m L)))))
    by (intros l _; apply sum_n_swap).
  apply (sum_n_swap (r0 a) (r0 bc)).
Qed.
Lemma phib_bck_emb (T : nat -> nat -> nat -> R) (P : mat R) (bc a : core3 R) l s : (forall L S, T L S 0%nat = P S L) ->
  phi_bck T a (to_ttm_core bc) u1 l s 0%nat = phib_bck P bc a s l.
Proof.
  intros HT. unfold phi_bck, phib_bck. cbn [to_ttm_core nm mm q1 e4]. change (r1 u1) with 1%nat. rewrite sum_n_1.
  rewrite (sum_n_ext (nn bc) _ (fun m => sum_n (r1 a) (fun L => sum_n (r1 bc) (fun S => P S L * e3 bc s m S * rconj (e3 a l m L))))).
  2:{ intros m _. apply sum_n_ext. intros L _. apply sum_n_ext. intros S _. rewrite sum_n_1, HT, u1_000. ring. }
  rewrite (sum_n_swap (nn bc) (r1 a)).
  rewrite (sum_n_ext (r1 a) _ (fun L => sum_n (r1 bc) (fun S => sum_n (nn bc) (fun m => P S L * e3 bc s m S * rconj (e3 a l m L)))))
    by (intros L _; apply sum_n_swap).
  apply (sum_n_swap (r1 a) (r1 bc)).
Qed.

Lemma phiF_emb (x : tt R) : forall (b : tt R) T P, length b = length x -> (forall l s, T l s 0%nat = P s l) ->
  forall l s, phiF x (to_ttm b) (repeat u1 (length x)) T l s 0%nat = phibF b x P s l.
Proof.
  induction x as [|a xs IH]; intros [|bc bs] T P Hl HT l s; simpl in Hl; try discriminate; [apply HT|].
  cbn [length repeat to_ttm map phiF phibF]. fold (to_ttm bs).
  apply IH; [lia|]. intros L S. apply phib_fwd_emb. exact HT.
Qed.
Lemma phiB_emb (x : tt R) : forall (b : tt R), length b = length x ->
  forall l s, phiB x (to_ttm b) (repeat u1 (length x)) l s 0%nat = phibB b x s l.
Proof.
  induction x as [|a xs IH]; intros [|bc bs] Hl l s; simpl in Hl; try discriminate; [reflexivity|].
  cbn [length repeat to_ttm map phiB phibB]. fold (to_ttm bs).
  apply phib_bck_emb. intros L S. apply IH. lia.
Qed.

(* the all-ones train of modes 1 *)
Lemma u1s_chained k : chained 1 (repeat u1 k).
Proof. induction k as [|k IH]; cbn [repeat chained]; [reflexivity|]. split; [reflexivity|exact IH]. Qed.
Lemma u1s_entry k : entry (repeat u1 k) (repeat 0%nat k) = 1.
Proof.
  unfold entry. induction k as [|k IH]; cbn [repeat slices].
  - unfold chainM, Id, delta. simpl. reflexivity.
  - rewrite chainM_cons. change (r1 u1) with 1%nat. rewrite sum_n_1, IH, u1_000. ring.
Qed.
Lemma sum_idx_ones (k : nat) (f : list nat -> R) : sum_idx (repeat 1%nat k) f = f (repeat 0%nat k).
Proof.
  revert f. induction k as [|k IH]; intros f; cbn [repeat sum_idx]; [reflexivity|]. rewrite sum_n_1. apply (IH (fun js => f (0%nat :: js))).
Qed.

Lemma to_ttm_chained4 (y : tt R) : forall r, chained r y -> chained4 r (to_ttm y).
Proof. induction y as [|c t IH]; intros r H; simpl in *; [exact H|]. destruct H as [H1 H2]. split; [exact H1|apply IH; exact H2]. Qed.
Lemma map_const_repeat {A} (l : list A) (v : nat) : map (fun _ => v) l = repeat v (length l).
Proof. induction l as [|a t IH]; [reflexivity|]. cbn [map length repeat]. rewrite IH. reflexivity. Qed.
Lemma repeat_mid {A} (v : A) a b : repeat v a ++ v :: repeat v b = repeat v (a + S b).
Proof. rewrite repeat_app. reflexivity. Qed.

(* THE LOCAL RIGHT-HAND SIDE IS THE PROJECTED RIGHT-HAND SIDE: entry (r,m,R) is  < F_x e_(r,m,R), b > *)
Theorem local_rhs_galerkin (xpre xpost bpre bpost : tt R) (bk : core3 R) ra rb r m R0 :
  length bpre = length xpre -> length bpost = length xpost -> (r < ra)%nat -> (R0 < rb)%nat -> (m < nn bk)%nat ->
  wf (xpre ++ unit3 ra (nn bk) rb r m R0 :: xpost) -> wf (bpre ++ bk :: bpost) ->
  e3 (local_rhs (phibF bpre xpre ones2) bk (phibB bpost xpost) ra rb) r m R0
  = sum_idx (shape (bpre ++ bk :: bpost)) (fun is_ =>
      rconj (entry (xpre ++ unit3 ra (nn bk) rb r m R0 :: xpost) is_) * entry (bpre ++ bk :: bpost) is_).
Proof.
  intros Hl1 Hl2 Hr HR Hm Wx Wb.
  set (E := xpre ++ unit3 ra (nn bk) rb r m R0 :: xpost). set (b := bpre ++ bk :: bpost).
  assert (Hxpost : chained rb xpost) by (apply (chained_post xpre 1%nat _ _ (proj2 Wx))).
  assert (Hbpost : chained (r1 bk) bpost) by (apply (chained_post bpre 1%nat _ _ (proj2 Wb))).
  transitivity (local_mat (phiF xpre (to_ttm bpre) (repeat u1 (length xpre)) ones3) (to_ttm_core bk)
                          (phiB xpost (to_ttm bpost) (repeat u1 (length xpost))) r m R0 0%nat 0%nat 0%nat).
  { cbn [local_rhs e3]. unfold local_mat. cbn [to_ttm_core q0 q1 e4].
    apply sum_n_ext. intros s _. apply sum_n_ext. intros S _.
    rewrite (phiF_emb xpre bpre ones3 ones2 Hl1 (fun _ _ => eq_refl)), (phiB_emb xpost bpost Hl2). reflexivity. }
  pose proof (local_mat_galerkin2 xpre xpost (repeat u1 (length xpre)) (repeat u1 (length xpost)) (to_ttm bpre) (to_ttm bpost)
                (to_ttm_core bk) ra rb 1%nat 1%nat r m R0 0%nat 0%nat 0%nat) as HG.
  cbn [to_ttm_core mm nm q1] in HG. fold u1 in HG.
  rewrite <- HG; clear HG; try assumption; try lia; try (unfold to_ttm; rewrite map_length; assumption); try (rewrite repeat_length; reflexivity);
    try apply u1s_chained; try (apply to_ttm_chained4; assumption).
  assert (HT : to_ttm bpre ++ to_ttm_core bk :: to_ttm bpost = to_ttm b)
    by (unfold b, to_ttm; rewrite map_app; reflexivity).
  rewrite HT. rewrite repeat_mid.
  assert (Hlen : length b = (length xpre + S (length xpost))%nat) by (unfold b; rewrite app_length; simpl; lia).
  rewrite bilinear_full.
  - destruct (to_ttm_shapes b) as [S1 S2]. rewrite S1, S2, map_const_repeat.
    apply sum_idx_ext. intros is_ Hli _. rewrite sum_idx_ones.
    rewrite to_ttm_full by (rewrite repeat_length, Hli; unfold shape; rewrite map_length; reflexivity).
    rewrite Hlen, u1s_entry. fold E. ring.
  - exact Wx.
  - split; [unfold to_ttm, b; destruct bpre; discriminate|apply to_ttm_chained4; exact (proj2 Wb)].
  - split; [destruct (length xpre); discriminate|apply u1s_chained].
  - unfold to_ttm. rewrite map_length, Hlen, app_length. reflexivity.
  - rewrite repeat_length, app_length. reflexivity.
Qed.

(* THE EXACT SOLUTION IS STATIONARY: if A x = b entry by entry, then at every position k the k-th core of x solves the k-th local system
   B_k g = f_k of amen_solve built from the interfaces of x itself - local_product(...) x_k = local_rhs(...) on the whole local index range.
   (A sweep with an exact local solver therefore leaves an exact solution where it is; the residual-based enrichment adds directions of zero weight.) *)
Theorem exact_solution_stationary (pre post bpre bpost : tt R) (Apre Apost : ttm R) (ck : core4 R) (g bk : core3 R) l m L :
  length Apre = length pre -> length bpre = length pre -> length Apost = length post -> length bpost = length post ->
  (l < r0 g)%nat -> (L < r1 g)%nat -> (m < mm ck)%nat -> nn g = nm ck -> nn bk = mm ck ->
  shape (bpre ++ bk :: bpost) = shapeM (Apre ++ ck :: Apost) ->
  wf (pre ++ g :: post) -> wf4 (Apre ++ ck :: Apost) -> wf (bpre ++ bk :: bpost) ->
  (forall is_, length is_ = length (shapeM (Apre ++ ck :: Apost)) -> Forall2 lt is_ (shapeM (Apre ++ ck :: Apost)) ->
     sum_idx (shapeN (Apre ++ ck :: Apost)) (fun js => entry4 (Apre ++ ck :: Apost) is_ js * entry (pre ++ g :: post) js) = entry (bpre ++ bk :: bpost) is_) ->
  e3 (local_product (phiF pre Apre pre ones3) ck (phiB post Apost post) g) l m L
  = e3 (local_rhs (phibF bpre pre ones2) bk (phibB bpost post) (r0 g) (r1 g)) l m L.
Proof.
  intros HlA Hlb HlA2 Hlb2 Hl HL Hm Hng Hnb Hsh Wx WA Wb Hsol.
  assert (WE : wf (pre ++ unit3 (r0 g) (mm ck) (r1 g) l m L :: post)) by (apply (wf_mid pre post g); [reflexivity|reflexivity|exact Wx]).
  rewrite (local_product_galerkin pre post pre post Apre Apost ck g (r0 g) (r1 g) l m L) by (auto; lia).
  rewrite (local_rhs_galerkin pre post bpre bpost bk (r0 g) (r1 g) l m L) by (try rewrite Hnb; auto; lia).
  rewrite Hnb, Hsh. apply sum_idx_ext. intros is_ Hli HFi.
  rewrite <- (Hsol is_ Hli HFi). rewrite <- sum_idx_scal_l. apply sum_idx_ext. intros js _ _. ring.
Qed.

(* the same for the division (C13): an exact quotient q (q * y = x entry by entry) satisfies every local system of amen_divide, whose operator
   is diag(y) and whose right-hand side is x *)
Theorem exact_quotient_stationary (pre post ypre ypost xpre xpost : tt R) (g yk xk : core3 R) l m L :
  length ypre = length pre -> length xpre = length pre -> length ypost = length post -> length xpost = length post ->
  (l < r0 g)%nat -> (L < r1 g)%nat -> (m < nn yk)%nat -> nn g = nn yk -> nn xk = nn yk ->
  shape (xpre ++ xk :: xpost) = shape (ypre ++ yk :: ypost) ->
  wf (pre ++ g :: post) -> wf (ypre ++ yk :: ypost) -> wf (xpre ++ xk :: xpost) ->
  (forall is_, length is_ = length (shape (ypre ++ yk :: ypost)) -> Forall2 lt is_ (shape (ypre ++ yk :: ypost)) ->
     entry (pre ++ g :: post) is_ * entry (ypre ++ yk :: ypost) is_ = entry (xpre ++ xk :: xpost) is_) ->
  e3 (local_product (phiF pre (diag_tt ypre) pre ones3) (diag_core yk) (phiB post (diag_tt ypost) post) g) l m L
  = e3 (local_rhs (phibF xpre pre ones2) xk (phibB xpost post) (r0 g) (r1 g)) l m L.
Proof.
  intros H1 H2 H3 H4 Hl HL Hm Hng Hnx Hsh Wq Wy Wxx Hq.
  assert (HD : diag_tt ypre ++ diag_core yk :: diag_tt ypost = diag_tt (ypre ++ yk :: ypost)) by (unfold diag_tt; rewrite map_app; reflexivity).
  destruct (diag_tt_shapes (ypre ++ yk :: ypost)) as [S1 S2].
  apply (exact_solution_stationary pre post xpre xpost (diag_tt ypre) (diag_tt ypost) (diag_core yk) g xk l m L);
    try assumption; try (unfold diag_tt; rewrite map_length; assumption).
  - rewrite HD, S1. exact Hsh.
  - rewrite HD. destruct Wy as [Wn Wc]. split; [unfold diag_tt; destruct (ypre ++ yk :: ypost); [congruence|discriminate]|apply diag_tt_chained4; exact Wc].
  - rewrite HD, S1, S2. intros is_ Hli HFi.
    rewrite (sum_idx_ext (shape (ypre ++ yk :: ypost)) _ (fun js => deltas is_ js * (entry (ypre ++ yk :: ypost) is_ * entry (pre ++ g :: post) js))).
    + rewrite sum_idx_deltas by exact HFi. rewrite <- (Hq is_ Hli HFi). ring.
    + intros js Hlj _. rewrite diag_tt_full by (unfold shape in *; rewrite map_length in *; assumption). ring.
Qed.

(* the hypotheses are met by every well-formed pair: take b = A x as the exact TT product (C04 matvec) - then x is stationary for (A, b) *)
Lemma matvec_app (A1 : ttm R) : forall (x1 : tt R) A2 x2, length x1 = length A1 -> matvec (A1 ++ A2) (x1 ++ x2) = matvec A1 x1 ++ matvec A2 x2.
Proof. induction A1 as [|a t IH]; intros [|b xt] A2 x2 H; simpl in H; try discriminate; [reflexivity|]. cbn [app matvec]. rewrite IH by lia. reflexivity. Qed.
Lemma matvec_length (A : ttm R) : forall x : tt R, length x = length A -> length (matvec A x) = length A.
Proof. induction A as [|a t IH]; intros [|b xt] H; simpl in *; try discriminate; auto. Qed.

Corollary product_solution_stationary (pre post : tt R) (Apre Apost : ttm R) (ck : core4 R) (g : core3 R) l m L :
  length Apre = length pre -> length Apost = length post ->
  (l < r0 g)%nat -> (L < r1 g)%nat -> (m < mm ck)%nat -> nn g = nm ck ->
  wf (pre ++ g :: post) -> wf4 (Apre ++ ck :: Apost) ->
  e3 (local_product (phiF pre Apre pre ones3) ck (phiB post Apost post) g) l m L
  = e3 (local_rhs (phibF (matvec Apre pre) pre ones2) (matvec_core ck g) (phibB (matvec Apost post) post) (r0 g) (r1 g)) l m L.
Proof.
  intros H1 H2 Hl HL Hm Hng Wx WA.
  assert (Hmv : matvec (Apre ++ ck :: Apost) (pre ++ g :: post) = matvec Apre pre ++ matvec_core ck g :: matvec Apost post)
    by (rewrite matvec_app by lia; reflexivity).
  assert (Hlen : length (pre ++ g :: post) = length (Apre ++ ck :: Apost)) by (rewrite !app_length; simpl; lia).
  apply exact_solution_stationary; try assumption; try (rewrite matvec_length; lia).
  - reflexivity.
  - rewrite <- Hmv. apply matvec_shape. exact Hlen.
  - rewrite <- Hmv. apply matvec_wf; assumption.
  - intros is_ Hli _. rewrite <- Hmv. symmetry. apply matvec_full; try assumption. rewrite Hli. unfold shapeM. apply map_length.
Qed.

(* ... and for the division: x := q * y as the exact TT product (C03 mul) *)
Lemma mul_app (x1 : tt R) : forall (y1 x2 y2 : tt R), length y1 = length x1 -> mul (x1 ++ x2) (y1 ++ y2) = mul x1 y1 ++ mul x2 y2.
Proof. induction x1 as [|a t IH]; intros [|b yt] x2 y2 H; simpl in H; try discriminate; [reflexivity|]. cbn [app mul]. rewrite IH by lia. reflexivity. Qed.
Lemma mul_length (x : tt R) : forall y : tt R, length y = length x -> length (mul x y) = length x.
Proof. induction x as [|a t IH]; intros [|b yt] H; simpl in *; try discriminate; auto. Qed.

Corollary product_quotient_stationary (pre post ypre ypost : tt R) (g yk : core3 R) l m L :
  length ypre = length pre -> length ypost = length post ->
  (l < r0 g)%nat -> (L < r1 g)%nat -> (m < nn yk)%nat -> nn g = nn yk ->
  shape (pre ++ g :: post) = shape (ypre ++ yk :: ypost) ->
  wf (pre ++ g :: post) -> wf (ypre ++ yk :: ypost) ->
  e3 (local_product (phiF pre (diag_tt ypre) pre ones3) (diag_core yk) (phiB post (diag_tt ypost) post) g) l m L
  = e3 (local_rhs (phibF (mul pre ypre) pre ones2) (mul_core g yk) (phibB (mul post ypost) post) (r0 g) (r1 g)) l m L.
Proof.
  intros H1 H2 Hl HL Hm Hng Hsh Wq Wy.
  assert (Hmul : mul (pre ++ g :: post) (ypre ++ yk :: ypost) = mul pre ypre ++ mul_core g yk :: mul post ypost)
    by (rewrite mul_app by lia; reflexivity).
  assert (Hlen : length (ypre ++ yk :: ypost) = length (pre ++ g :: post)) by (rewrite !app_length; simpl; lia).
  apply exact_quotient_stationary; try assumption; try (rewrite mul_length; lia).
  - rewrite <- Hmul, <- Hsh. apply mul_shape. exact Hlen.
  - rewrite <- Hmul. apply mul_wf; assumption.
  - intros is_ Hli _. rewrite <- Hmul. symmetry. apply mul_full; try assumption.
    rewrite Hli. unfold shape. rewrite !map_length. exact Hlen.
Qed.

(* ---- AMEn products (C11): in the mixed orthogonal gauge the sweeps keep, the local update is the ORTHOGONAL projection of the exact product on
   the frame of the approximation; if the exact product is representable in that frame, the update returns its centre core exactly ---- *)
(* inner product of two trains that share an orthogonal frame = inner product of their centre cores (polarised norm2_centre_core) *)
Theorem inner_centre_core (pre post : tt R) (c c' : core3 R) : linked 1 pre -> Forall left_orth pre -> chained (r1 c) post -> Forall right_orth post ->
  r1 c' = r1 c -> nn c' = nn c ->
  sum_idx (shape (pre ++ c :: post)) (fun idx => entry (pre ++ c :: post) idx * rconj (entry (pre ++ c' :: post) idx))
  = sum_n (nn c) (fun i => sum_n (endrank 1 pre) (fun p => sum_n (r1 c) (fun q => e3 c p i q * rconj (e3 c' p i q)))).
Proof.
  intros Hl Hall Hch Hallr Hr Hn.
  unfold shape. rewrite map_app. cbn [map]. fold (shape pre) (shape post).
  rewrite sum_idx_app. cbn [sum_idx].
  rewrite (sum_idx_ext (shape pre) _ (fun ip => sum_n (nn c) (fun i => sum_idx (shape post) (fun iq =>
      sum_n (endrank 1 pre) (fun p => chainM (slices pre ip) 0%nat p * sum_n (r1 c) (fun q => e3 c p i q * chainM (slices post iq) q 0%nat)) *
      rconj (sum_n (endrank 1 pre) (fun p => chainM (slices pre ip) 0%nat p * sum_n (r1 c) (fun q => e3 c' p i q * chainM (slices post iq) q 0%nat))))))).
  2:{ intros ip Hlen _. unfold shape in Hlen. rewrite map_length in Hlen. apply sum_n_ext. intros i _. apply sum_idx_ext. intros iq _ _.
      rewrite !entry_middle by exact Hlen. rewrite Hr. reflexivity. }
  rewrite sum_idx_sum_n_swap.
  rewrite (sum_n_ext (nn c) _ (fun i => sum_idx (shape post) (fun iq => sum_n (endrank 1 pre) (fun p =>
      sum_n (r1 c) (fun q => e3 c p i q * chainM (slices post iq) q 0%nat) * rconj (sum_n (r1 c) (fun q => e3 c' p i q * chainM (slices post iq) q 0%nat)))))).
  2:{ intros i _. rewrite sum_idx_swap. apply sum_idx_ext. intros iq _ _.
      apply (interface_isometry pre (fun p => sum_n (r1 c) (fun q => e3 c p i q * chainM (slices post iq) q 0%nat))
                                    (fun p => sum_n (r1 c) (fun q => e3 c' p i q * chainM (slices post iq) q 0%nat)) Hl Hall). }
  apply sum_n_ext. intros i _. rewrite sum_idx_sum_n_swap. apply sum_n_ext. intros p _.
  apply (right_isometry post (r1 c) (fun q => e3 c p i q) (fun q => e3 c' p i q) Hch Hallr).
Qed.

Lemma chained_pre (pre : tt R) : forall r c post, chained r (pre ++ c :: post) -> linked r pre /\ endrank r pre = r0 c.
Proof.
  induction pre as [|a t IH]; intros r c post H; cbn [app chained linked endrank] in *.
  - split; [exact I|]. symmetry. exact (proj1 H).
  - destruct H as [Hr H]. destruct (IH _ _ _ H) as [H1 H2]. split; [split; assumption|exact H2].
Qed.

(* THE AMEn UPDATE IS EXACT ON REPRESENTABLE PRODUCTS: y = ypre ++ c :: ypost in mixed orthogonal gauge with A x = y entry by entry; then the
   local update  local_product(Phi(y,A,x)_k, A_k, Phi(y,A,x)_(k+1), x_k)  of amen_mv returns the core c *)
Theorem amen_update_exact (ypre ypost xpre xpost : tt R) (Apre Apost : ttm R) (ck : core4 R) (xk c : core3 R) l m L :
  length Apre = length ypre -> length xpre = length ypre -> length Apost = length ypost -> length xpost = length ypost ->
  (l < r0 c)%nat -> (L < r1 c)%nat -> (m < nn c)%nat -> nn xk = nm ck -> nn c = mm ck ->
  shape (ypre ++ c :: ypost) = shapeM (Apre ++ ck :: Apost) ->
  wf (ypre ++ c :: ypost) -> wf4 (Apre ++ ck :: Apost) -> wf (xpre ++ xk :: xpost) ->
  Forall left_orth ypre -> Forall right_orth ypost ->
  (forall is_, length is_ = length (shapeM (Apre ++ ck :: Apost)) -> Forall2 lt is_ (shapeM (Apre ++ ck :: Apost)) ->
     sum_idx (shapeN (Apre ++ ck :: Apost)) (fun js => entry4 (Apre ++ ck :: Apost) is_ js * entry (xpre ++ xk :: xpost) js) = entry (ypre ++ c :: ypost) is_) ->
  e3 (local_product (phiF ypre Apre xpre ones3) ck (phiB ypost Apost xpost) xk) l m L = e3 c l m L.
Proof.
  intros H1 H2 H3 H4 Hl HL Hm Hnx Hnc Hsh Wy WA Wx Hlo Hro Hprod.
  assert (WE : wf (ypre ++ unit3 (r0 c) (mm ck) (r1 c) l m L :: ypost)) by (apply (wf_mid ypre ypost c); [reflexivity|reflexivity|exact Wy]).
  destruct (chained_pre ypre 1%nat c ypost (proj2 Wy)) as [Hlk Hend].
  pose proof (chained_post ypre 1%nat c ypost (proj2 Wy)) as Hpost.
  rewrite (local_product_galerkin ypre ypost xpre xpost Apre Apost ck xk (r0 c) (r1 c) l m L) by (auto; lia).
  transitivity (sum_idx (shape (ypre ++ c :: ypost)) (fun is_ =>
     entry (ypre ++ c :: ypost) is_ * rconj (entry (ypre ++ unit3 (r0 c) (mm ck) (r1 c) l m L :: ypost) is_))).
  { rewrite Hsh. apply sum_idx_ext. intros is_ Hli HFi. rewrite <- (Hprod is_ Hli HFi).
    rewrite <- sum_idx_scal_r. apply sum_idx_ext. intros js _ _. ring. }
  rewrite (inner_centre_core ypre ypost c (unit3 (r0 c) (mm ck) (r1 c) l m L) Hlk Hlo Hpost Hro) by (cbn [unit3 r1 nn]; congruence).
  cbn [unit3 e3]. rewrite Hend.
  rewrite (sum_n_ext (nn c) _ (fun i => delta m i * sum_n (r0 c) (fun p => delta l p * sum_n (r1 c) (fun q => delta L q * e3 c p i q)))).
  2:{ intros i _. rewrite <- sum_n_scal_l. apply sum_n_ext. intros p _. rewrite <- !sum_n_scal_l. apply sum_n_ext. intros q _.
      rewrite !conj_mul, !conj_delta. ring. }
  rewrite sum_n_delta_l by exact Hm. rewrite sum_n_delta_l by exact Hl. rewrite sum_n_delta_l by exact HL. reflexivity.
Qed.

(* ---- the two-site supercore of the DMRG products: projection of the dense product on the TWO-SITE frame of the iterate ---- *)
Lemma phi_bck_unit_left (P : nat -> nat -> nat -> R) (c2 : core4 R) (x2 : core3 R) rc m2 L S R' : (m2 < mm c2)%nat -> (L < rc)%nat ->
  phi_bck P (unit3 1 (mm c2) rc 0 m2 L) c2 x2 0%nat S R' = super_right c2 x2 P m2 L S R'.
Proof.
  intros Hm HL. unfold phi_bck, super_right, unit3. cbn [r1 e3].
  apply sum_n_ext. intros n2 _.
  rewrite (sum_n_ext (mm c2) _ (fun m => delta m2 m * sum_n (q1 c2) (fun S' => sum_n (r1 x2) (fun R'' => P L S' R'' * e4 c2 S m n2 S' * e3 x2 R' n2 R'')))).
  - rewrite sum_n_delta_l by exact Hm. reflexivity.
  - intros m _.
    rewrite (sum_n_ext rc _ (fun L0 => delta L L0 * (delta m2 m * sum_n (q1 c2) (fun S' => sum_n (r1 x2) (fun R'' => P L0 S' R'' * e4 c2 S m n2 S' * e3 x2 R' n2 R''))))).
    + rewrite sum_n_delta_l by exact HL. reflexivity.
    + intros L0 _. rewrite <- !sum_n_scal_l. apply sum_n_ext. intros S' _. rewrite <- !sum_n_scal_l. apply sum_n_ext. intros R'' _.
      rewrite !conj_mul, !conj_delta. unfold delta at 1. cbn [Nat.eqb]. ring.
Qed.

Lemma supercore_local_product (PL PR : nat -> nat -> nat -> R) (c1 c2 : core4 R) (x1 x2 : core3 R) rc l m1 m2 L : (m2 < mm c2)%nat -> (L < rc)%nat ->
  supercore PL c1 x1 c2 x2 PR l m1 m2 L = e3 (local_product PL c1 (phi_bck PR (unit3 1 (mm c2) rc 0 m2 L) c2 x2) x1) l m1 0%nat.
Proof.
  intros Hm HL. unfold supercore. cbn [local_product e3]. unfold local_mat.
  apply sum_n_ext. intros r _. apply sum_n_ext. intros n _. apply sum_n_ext. intros R' _.
  f_equal. apply sum_n_ext. intros s _. apply sum_n_ext. intros S _.
  rewrite (phi_bck_unit_left PR c2 x2 rc m2 L S R' Hm HL). reflexivity.
Qed.

(* THE DMRG SUPERCORE IS THE PROJECTED DENSE PRODUCT on the two-site frame: W[l, m1, m2, L] = < F_y e_(l,m1,m2,L), A x >, where F_y e carries the cores of the
   iterate y outside positions k, k+1 and the pair of unit cores (l, m1 | m2, L) with a bond of rank one at those positions *)
Theorem supercore_galerkin (ypre ypost xpre xpost : tt R) (Apre Apost : ttm R) (c1 c2 : core4 R) (x1 x2 : core3 R) ra rc l m1 m2 L :
  length Apre = length ypre -> length xpre = length ypre -> length Apost = length ypost -> length xpost = length ypost ->
  (l < ra)%nat -> (L < rc)%nat -> (m1 < mm c1)%nat -> (m2 < mm c2)%nat -> nn x1 = nm c1 ->
  wf (ypre ++ unit3 ra (mm c1) 1 l m1 0 :: unit3 1 (mm c2) rc 0 m2 L :: ypost) -> wf4 (Apre ++ c1 :: c2 :: Apost) -> wf (xpre ++ x1 :: x2 :: xpost) ->
  supercore (phiF ypre Apre xpre ones3) c1 x1 c2 x2 (phiB ypost Apost xpost) l m1 m2 L
  = sum_idx (shapeM (Apre ++ c1 :: c2 :: Apost)) (fun is_ => sum_idx (shapeN (Apre ++ c1 :: c2 :: Apost)) (fun js =>
      rconj (entry (ypre ++ unit3 ra (mm c1) 1 l m1 0 :: unit3 1 (mm c2) rc 0 m2 L :: ypost) is_) * entry4 (Apre ++ c1 :: c2 :: Apost) is_ js
      * entry (xpre ++ x1 :: x2 :: xpost) js)).
Proof.
  intros H1 H2 H3 H4 Hl HL Hm1 Hm2 Hn Wy WA Wx.
  rewrite (supercore_local_product _ _ c1 c2 x1 x2 rc l m1 m2 L Hm2 HL).
  change (phi_bck (phiB ypost Apost xpost) (unit3 1 (mm c2) rc 0 m2 L) c2 x2)
    with (phiB (unit3 1 (mm c2) rc 0 m2 L :: ypost) (c2 :: Apost) (x2 :: xpost)).
  apply (local_product_galerkin ypre (unit3 1 (mm c2) rc 0 m2 L :: ypost) xpre (x2 :: xpost) Apre (c2 :: Apost) c1 x1 ra 1%nat l m1 0%nat);
    try assumption; try lia; simpl; lia.
Qed.

(* ... hence a component of the product that the two-site frame annihilates is INVISIBLE to the sweep (the mechanism of the block-blind guess,
   DESIGN 9b): if A x = u + v entry by entry and the frame element is orthogonal to v, the supercore entry is the projection of u alone *)
Corollary supercore_blind_component (ypre ypost xpre xpost : tt R) (Apre Apost : ttm R) (c1 c2 : core4 R) (x1 x2 : core3 R) ra rc l m1 m2 L (u v : list nat -> R) :
  length Apre = length ypre -> length xpre = length ypre -> length Apost = length ypost -> length xpost = length ypost ->
  (l < ra)%nat -> (L < rc)%nat -> (m1 < mm c1)%nat -> (m2 < mm c2)%nat -> nn x1 = nm c1 ->
  wf (ypre ++ unit3 ra (mm c1) 1 l m1 0 :: unit3 1 (mm c2) rc 0 m2 L :: ypost) -> wf4 (Apre ++ c1 :: c2 :: Apost) -> wf (xpre ++ x1 :: x2 :: xpost) ->
  (forall is_, length is_ = length (shapeM (Apre ++ c1 :: c2 :: Apost)) -> Forall2 lt is_ (shapeM (Apre ++ c1 :: c2 :: Apost)) ->
     sum_idx (shapeN (Apre ++ c1 :: c2 :: Apost)) (fun js => entry4 (Apre ++ c1 :: c2 :: Apost) is_ js * entry (xpre ++ x1 :: x2 :: xpost) js) = u is_ + v is_) ->
  sum_idx (shapeM (Apre ++ c1 :: c2 :: Apost)) (fun is_ => rconj (entry (ypre ++ unit3 ra (mm c1) 1 l m1 0 :: unit3 1 (mm c2) rc 0 m2 L :: ypost) is_) * v is_) = 0 ->
  supercore (phiF ypre Apre xpre ones3) c1 x1 c2 x2 (phiB ypost Apost xpost) l m1 m2 L
  = sum_idx (shapeM (Apre ++ c1 :: c2 :: Apost)) (fun is_ => rconj (entry (ypre ++ unit3 ra (mm c1) 1 l m1 0 :: unit3 1 (mm c2) rc 0 m2 L :: ypost) is_) * u is_).
Proof.
  intros H1 H2 H3 H4 Hl HL Hm1 Hm2 Hn Wy WA Wx Hsplit Hblind.
  rewrite (supercore_galerkin ypre ypost xpre xpost Apre Apost c1 c2 x1 x2 ra rc l m1 m2 L) by assumption.
  set (E := entry (ypre ++ unit3 ra (mm c1) 1 l m1 0 :: unit3 1 (mm c2) rc 0 m2 L :: ypost)) in *.
  transitivity (sum_idx (shapeM (Apre ++ c1 :: c2 :: Apost)) (fun is_ => rconj (E is_) * u is_ + rconj (E is_) * v is_)).
  - apply sum_idx_ext. intros is_ Hli HFi.
    transitivity (rconj (E is_) * (u is_ + v is_)); [|ring].
    rewrite <- (Hsplit is_ Hli HFi). rewrite <- sum_idx_scal_l. apply sum_idx_ext. intros js _ _. ring.
  - rewrite sum_idx_add, Hblind. ring.
Qed.

End StationaryP.
