(* C09: padding of a TT matrix (torchtt.pad on an operator): block diagonal  value*I (+) A (+) value*I  in every mode pair,
   realised as the rank-augmenting sum lead + zero-padded + trail. *)
From Coq Require Import List Arith Lia Ring Bool.
From TT Require Import RingSig SumN Mat Dense Core CoreP Arith ArithP MatOps MatOpsP Reduce ReduceP Struct StructP.
Import ListNotations.

Section PadTTMP.
Context {R : Type} {RO : RingOps R} {RL : RingLaws R}.
Add Ring Rr9p : Rth.
Open Scope R_scope.

Arguments chainM : simpl never.

(* ---- add4: shape, length, well-formedness ---- *)
Lemma unflatM_length ms : forall ns (z : tt R), length ns = length ms -> length z = length ms -> length (unflatM ms ns z) = length ms.
Proof. induction ms as [|m mt IH]; intros [|n nt] [|c ct] H1 H2; simpl in *; try discriminate; auto. Qed.
Lemma add4_length (x y : ttm R) : length y = length x -> length (add4 x y) = length x.
Proof.
  intros H. unfold add4, lift2. rewrite unflatM_length; rewrite ?shapeN_length, ?shapeM_length; auto.
  rewrite add_length; rewrite !flatM_length; auto.
Qed.
Lemma add4_shapes (x y : ttm R) : length y = length x -> shapeM (add4 x y) = shapeM x /\ shapeN (add4 x y) = shapeN x.
Proof.
  intros H. unfold add4, lift2. apply unflatM_shapes; rewrite ?shapeN_length, ?shapeM_length; auto.
  rewrite add_length; rewrite !flatM_length; auto.
Qed.
Lemma add4_wf (x y : ttm R) : wf4 x -> wf4 y -> length y = length x -> wf4 (add4 x y).
Proof.
  intros Hx Hy H. split.
  - destruct Hx as [Hn _]. destruct Hy as [Hn' _]. destruct x as [|c cs]; [congruence|]. destruct y as [|c' cs']; [congruence|].
    unfold add4, lift2. cbn. discriminate.
  - unfold add4, lift2. apply unflatM_chained; rewrite ?shapeN_length, ?shapeM_length; auto.
    + rewrite add_length; rewrite !flatM_length; auto.
    + apply add_wf; auto using flatM_wf. rewrite !flatM_length. assumption.
Qed.

(* ---- the three channels ---- *)
Definition leadF (value : R) := fun (last : bool) (b a : nat) (c : core4 R) => lead_core (mm c) (nm c) b a a (if last then value else 1).
Definition trailF (value : R) := fun (last : bool) (b a : nat) (c : core4 R) => trail_core (mm c) (nm c) b a (if last then value else 1).
Definition padzF := fun (_ : bool) (b a : nat) (c : core4 R) => padz_core4 b a c.

Fixpoint padM (x : ttm R) (pd : list (nat * nat)) : list nat :=
  match x, pd with c :: ct, (b, a) :: pt => (b + mm c + a)%nat :: padM ct pt | _, _ => [] end.
Fixpoint padN (x : ttm R) (pd : list (nat * nat)) : list nat :=
  match x, pd with c :: ct, (b, a) :: pt => (b + nm c + a)%nat :: padN ct pt | _, _ => [] end.

Lemma zip_pad_length {A} (f : bool -> nat -> nat -> core4 R -> A) (x : ttm R) : forall pd, length pd = length x -> length (zip_pad f x pd) = length x.
Proof. induction x as [|c ct IH]; intros [|[b a] pt] H; simpl in *; try discriminate; auto. Qed.
Lemma zip_shapes (f : bool -> nat -> nat -> core4 R -> core4 R) :
  (forall l b a c, mm (f l b a c) = (b + mm c + a)%nat /\ nm (f l b a c) = (b + nm c + a)%nat) ->
  forall (x : ttm R) pd, shapeM (zip_pad f x pd) = padM x pd /\ shapeN (zip_pad f x pd) = padN x pd.
Proof.
  intros Hf. induction x as [|c ct IH]; intros [|[b a] pt]; cbn [zip_pad padM padN shapeM shapeN map]; auto.
  destruct (IH pt) as [E1 E2]. unfold shapeM, shapeN in *. rewrite E1, E2. destruct (Hf (match ct with [] => true | _ => false end) b a c) as [-> ->]. auto.
Qed.
Lemma lead_shapes v x pd : shapeM (zip_pad (leadF v) x pd) = padM x pd /\ shapeN (zip_pad (leadF v) x pd) = padN x pd.
Proof. apply zip_shapes. intros; split; reflexivity. Qed.
Lemma trail_shapes v x pd : shapeM (zip_pad (trailF v) x pd) = padM x pd /\ shapeN (zip_pad (trailF v) x pd) = padN x pd.
Proof. apply zip_shapes. intros; split; reflexivity. Qed.
Lemma padz_shapes x pd : shapeM (zip_pad padzF x pd) = padM x pd /\ shapeN (zip_pad padzF x pd) = padN x pd.
Proof. apply zip_shapes. intros; split; reflexivity. Qed.

Lemma rank1_chained (f : bool -> nat -> nat -> core4 R -> core4 R) :
  (forall l b a c, q0 (f l b a c) = 1%nat /\ q1 (f l b a c) = 1%nat) -> forall (x : ttm R) pd, chained4 1 (zip_pad f x pd).
Proof.
  intros Hf. induction x as [|c ct IH]; intros [|[b a] pt]; cbn [zip_pad chained4]; auto.
  destruct (Hf (match ct with [] => true | _ => false end) b a c) as [E0 E1]. rewrite E0, E1. auto.
Qed.
Lemma padz_chained (x : ttm R) : forall pd r, length pd = length x -> chained4 r x -> chained4 r (zip_pad padzF x pd).
Proof. induction x as [|c ct IH]; intros [|[b a] pt] r H Hc; simpl in *; try discriminate; auto. destruct Hc; split; auto. Qed.
Lemma zip_nonempty {A} (f : bool -> nat -> nat -> core4 R -> A) (x : ttm R) pd : x <> [] -> length pd = length x -> zip_pad f x pd <> [].
Proof. destruct x as [|c ct]; [congruence|]. destruct pd as [|[b a] pt]; simpl; intros; [discriminate|discriminate]. Qed.

(* ---- specifications ---- *)
Fixpoint all_lead (pd : list (nat * nat)) (is_ js : list nat) : bool :=
  match pd, is_, js with
  | (b, _) :: pt, i :: it, j :: jt => (i <? b)%nat && (j <? b)%nat && Nat.eqb i j && all_lead pt it jt
  | _, _, _ => true
  end.
Fixpoint all_trail (x : ttm R) (pd : list (nat * nat)) (is_ js : list nat) : bool :=
  match x, pd, is_, js with
  | c :: ct, (b, _) :: pt, i :: it, j :: jt =>
      (b + mm c <=? i)%nat && (b + nm c <=? j)%nat && Nat.eqb (i - (b + mm c)) (j - (b + nm c)) && all_trail ct pt it jt
  | _, _, _, _ => true
  end.
Fixpoint in_block4 (x : ttm R) (pd : list (nat * nat)) (is_ js : list nat) : option (list nat * list nat) :=
  match x, pd, is_, js with
  | c :: ct, (b, _) :: pt, i :: it, j :: jt =>
      if (b <=? i)%nat && (i <? b + mm c)%nat && (b <=? j)%nat && (j <? b + nm c)%nat
      then match in_block4 ct pt it jt with Some (i', j') => Some ((i - b)%nat :: i', (j - b)%nat :: j') | None => None end
      else None
  | _, _, _, _ => Some ([], [])
  end.

Lemma lead_chain v (x : ttm R) : forall pd is_ js, x <> [] -> length pd = length x -> length is_ = length x -> length js = length x ->
  chainM (slices4 (zip_pad (leadF v) x pd) is_ js) 0%nat 0%nat = if all_lead pd is_ js then v else 0.
Proof.
  induction x as [|c ct IH]; intros [|[b a] pt] [|i it] [|j jt] Hn Hp Hi Hj; simpl in Hp, Hi, Hj; try discriminate; [congruence|].
  cbn [zip_pad slices4 all_lead]. rewrite chainM_cons. cbn [q1 leadF lead_core e4]. rewrite sum_n_1.
  destruct ct as [|c' ct'].
  - destruct pt; [|discriminate]. destruct it; [|discriminate]. destruct jt; [|discriminate].
    cbn [zip_pad slices4 all_lead]. change (chainM (@nil (sl R)) 0%nat 0%nat) with (delta (R:=R) 0 0). unfold delta. cbn [Nat.eqb].
    destruct ((i <? b)%nat && (j <? b)%nat); cbn [andb]; [|ring].
    destruct (Nat.eqb i j); cbn [andb]; ring.
  - rewrite IH by (try discriminate; lia).
    destruct ((i <? b)%nat && (j <? b)%nat); cbn [andb]; [|ring]. unfold delta.
    destruct (Nat.eqb i j); cbn [andb]; [|ring]. destruct (all_lead pt it jt); ring.
Qed.

Lemma trail_chain v (x : ttm R) : forall pd is_ js, x <> [] -> length pd = length x -> length is_ = length x -> length js = length x ->
  chainM (slices4 (zip_pad (trailF v) x pd) is_ js) 0%nat 0%nat = if all_trail x pd is_ js then v else 0.
Proof.
  induction x as [|c ct IH]; intros [|[b a] pt] [|i it] [|j jt] Hn Hp Hi Hj; simpl in Hp, Hi, Hj; try discriminate; [congruence|].
  cbn [zip_pad slices4 all_trail]. rewrite chainM_cons. cbn [q1 trailF trail_core e4]. rewrite sum_n_1.
  destruct ct as [|c' ct'].
  - destruct pt; [|discriminate]. destruct it; [|discriminate]. destruct jt; [|discriminate].
    cbn [zip_pad slices4 all_trail]. change (chainM (@nil (sl R)) 0%nat 0%nat) with (delta (R:=R) 0 0). unfold delta. cbn [Nat.eqb].
    destruct ((b + mm c <=? i)%nat && (b + nm c <=? j)%nat); cbn [andb]; [|ring].
    destruct (Nat.eqb (i - (b + mm c)) (j - (b + nm c))); cbn [andb]; ring.
  - rewrite IH by (try discriminate; lia).
    destruct ((b + mm c <=? i)%nat && (b + nm c <=? j)%nat); cbn [andb]; [|ring]. unfold delta.
    destruct (Nat.eqb (i - (b + mm c)) (j - (b + nm c))); cbn [andb]; [|ring]. destruct (all_trail (c' :: ct') pt it jt); ring.
Qed.

Lemma padz_chain (x : ttm R) : forall pd is_ js p q, length pd = length x -> length is_ = length x -> length js = length x ->
  chainM (slices4 (zip_pad padzF x pd) is_ js) p q =
    match in_block4 x pd is_ js with Some (i', j') => chainM (slices4 x i' j') p q | None => 0 end.
Proof.
  induction x as [|c ct IH]; intros [|[b a] pt] [|i it] [|j jt] p q Hp Hi Hj; simpl in Hp, Hi, Hj; try discriminate; [reflexivity|].
  cbn [zip_pad slices4 in_block4]. rewrite chainM_cons. cbn [q1 padzF padz_core4 e4].
  destruct ((b <=? i)%nat && (i <? b + mm c)%nat && (b <=? j)%nat && (j <? b + nm c)%nat).
  - rewrite (sum_n_ext _ _ (fun l => e4 c p (i - b)%nat (j - b)%nat l *
        match in_block4 ct pt it jt with Some (i', j') => chainM (slices4 ct i' j') l q | None => 0 end)).
    2:{ intros l _. rewrite IH by lia. reflexivity. }
    destruct (in_block4 ct pt it jt) as [[i' j']|].
    + cbn [slices4]. rewrite chainM_cons. reflexivity.
    + apply sum_n_zero'. intros; ring.
  - apply sum_n_zero'. intros; ring.
Qed.

(* torchtt.pad(A, padding, value) for a TT matrix: every order, rectangular modes, any paddings (also fewer than modes), any value *)
Theorem pad_ttm_full (x : ttm R) padding value is_ js :
  wf4 x -> (length padding <= length x)%nat -> length is_ = length x ->
  Forall2 lt js (padN x (fill_pads (length x) padding)) ->
  entry4 (pad_ttm x padding value) is_ js =
    let pd := fill_pads (length x) padding in
    (if all_lead pd is_ js then value else 0)
    + match in_block4 x pd is_ js with Some (i', j') => entry4 x i' j' | None => 0 end
    + (if all_trail x pd is_ js then value else 0).
Proof.
  intros Hx Hpl Hi HF. cbn zeta. unfold pad_ttm.
  set (pd := fill_pads (length x) padding) in *.
  assert (Hpd : length pd = length x) by (apply fill_pads_length; assumption).
  assert (Hne : x <> []) by (destruct Hx; assumption).
  fold (leadF value) (trailF value) padzF.
  set (lead := zip_pad (leadF value) x pd). set (z := zip_pad padzF x pd). set (trail := zip_pad (trailF value) x pd).
  assert (Hll : length lead = length x) by (apply zip_pad_length; assumption).
  assert (Hlz : length z = length x) by (apply zip_pad_length; assumption).
  assert (Hlt : length trail = length x) by (apply zip_pad_length; assumption).
  destruct (lead_shapes value x pd) as [_ HNl]. destruct (padz_shapes x pd) as [_ HNz]. destruct (trail_shapes value x pd) as [_ HNt].
  fold lead in HNl. fold z in HNz. fold trail in HNt.
  assert (Hwl : wf4 lead) by (split; [apply zip_nonempty; assumption|apply rank1_chained; intros; split; reflexivity]).
  assert (Hwt : wf4 trail) by (split; [apply zip_nonempty; assumption|apply rank1_chained; intros; split; reflexivity]).
  assert (Hwz : wf4 z) by (split; [apply zip_nonempty; assumption|apply padz_chained; [assumption|destruct Hx; assumption]]).
  assert (Hjs : length js = length x).
  { apply Forall2_length in HF. rewrite HF. rewrite <- HNl, shapeN_length. exact Hll. }
  destruct (add4_shapes lead z) as [_ HNa]; [lia|].
  rewrite add4_full; try assumption.
  - rewrite add4_full; try assumption; try lia; try congruence; try (rewrite HNl; exact HF).
    unfold entry4. unfold lead, trail, z. rewrite lead_chain, trail_chain, padz_chain by assumption.
    destruct (in_block4 x pd is_ js) as [[i' j']|]; reflexivity.
  - apply add4_wf; try assumption. lia.
  - rewrite add4_length; lia.
  - congruence.
  - rewrite add4_length; lia.
  - rewrite HNa, HNl. exact HF.
Qed.

End PadTTMP.
