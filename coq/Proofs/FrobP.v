(* Frobenius inner product, orthonormal columns, the Pythagoras lemma of one truncation step, reshape invariance.
   Commutative ring with involution (conj = identity for real data): covers real and complex dtypes. *)
From Coq Require Import List Arith Lia Ring Bool.
From TT Require Import RingSig SumN Mat.
Import ListNotations.

Section FrobP.
Context {R : Type} {RO : RingOps R} {RL : RingLaws R}.
Add Ring Rr13 : Rth.
Open Scope R_scope.

Definition ip (m n : nat) (X Y : mat R) : R := sum_n m (fun i => sum_n n (fun j => X i j * rconj (Y i j))).
Definition frob2 (m n : nat) (X : mat R) : R := ip m n X X.
Definition adj (A : mat R) : mat R := fun i j => rconj (A j i).
Definition madd (X Y : mat R) : mat R := fun i j => X i j + Y i j.
Definition msub (X Y : mat R) : mat R := fun i j => X i j - Y i j.
(* U (m x r) has orthonormal columns *)
Definition orth (m r : nat) (U : mat R) : Prop := forall a b, (a < r)%nat -> (b < r)%nat -> mmul m (adj U) U a b = delta a b.

Lemma ip_ext m n X X' Y Y' : (forall i j, (i < m)%nat -> (j < n)%nat -> X i j = X' i j) ->
  (forall i j, (i < m)%nat -> (j < n)%nat -> Y i j = Y' i j) -> ip m n X Y = ip m n X' Y'.
Proof.
  intros HX HY. unfold ip. apply sum_n_ext. intros i Hi. apply sum_n_ext. intros j Hj. rewrite HX, HY by assumption. reflexivity.
Qed.
Lemma ip_add_l m n X Y Z : ip m n (madd X Y) Z = ip m n X Z + ip m n Y Z.
Proof.
  unfold ip, madd. rewrite <- sum_n_add. apply sum_n_ext. intros i _. rewrite <- sum_n_add. apply sum_n_ext. intros j _. ring.
Qed.
Lemma ip_add_r m n X Y Z : ip m n X (madd Y Z) = ip m n X Y + ip m n X Z.
Proof.
  unfold ip, madd. rewrite <- sum_n_add. apply sum_n_ext. intros i _. rewrite <- sum_n_add. apply sum_n_ext. intros j _.
  rewrite conj_add. ring.
Qed.
Lemma frob2_add m n X Y : frob2 m n (madd X Y) = frob2 m n X + frob2 m n Y + ip m n X Y + ip m n Y X.
Proof. unfold frob2. rewrite ip_add_l, !ip_add_r. ring. Qed.

(* <U B, E> = <B, U^H E> *)
Lemma ip_adjoint m r n (U B E : mat R) : ip m n (mmul r U B) E = ip r n B (mmul m (adj U) E).
Proof.
  unfold ip, mmul, adj.
  transitivity (sum_n r (fun a => sum_n n (fun j => sum_n m (fun i => B a j * (U i a * rconj (E i j)))))).
  - rewrite (sum_n_ext m _ (fun i => sum_n r (fun a => sum_n n (fun j => B a j * (U i a * rconj (E i j)))))).
    2:{ intros i _. rewrite sum_n_swap. apply sum_n_ext. intros j _. rewrite <- sum_n_scal_r. apply sum_n_ext. intros a _. ring. }
    rewrite sum_n_swap. apply sum_n_ext. intros a _. apply sum_n_swap.
  - apply sum_n_ext. intros a _. apply sum_n_ext. intros j _.
    rewrite sum_n_conj. rewrite <- sum_n_scal_l. apply sum_n_ext. intros i _. rewrite conj_mul, conj_inv. reflexivity.
Qed.
Lemma ip_sym_conj m n X Y : ip m n Y X = rconj (ip m n X Y).
Proof.
  unfold ip. rewrite sum_n_conj. apply sum_n_ext. intros i _. rewrite sum_n_conj. apply sum_n_ext. intros j _.
  rewrite conj_mul, conj_inv. ring.
Qed.

(* U^H (U B) = B on the index box *)
Lemma orth_cancel m r (U B : mat R) a j : orth m r U -> (a < r)%nat ->
  mmul m (adj U) (mmul r U B) a j = B a j.
Proof.
  intros HU Ha. rewrite <- mmul_assoc.
  rewrite (mmul_ext r (mmul m (adj U) U) Id B B a j); [apply mmul_Id_l; assumption| |reflexivity].
  intros l Hl. apply HU; assumption.
Qed.

(* isometry: || U B || = || B || *)
Lemma frob2_isometry m r n U B : orth m r U -> frob2 m n (mmul r U B) = frob2 r n B.
Proof.
  intros HU. unfold frob2. rewrite ip_adjoint. apply ip_ext; [reflexivity|].
  intros a j Ha Hj. apply orth_cancel; assumption.
Qed.

(* one truncation step: C (m x n), U (m x r) orthonormal, B = U^H C the projected remainder, Bh ANY approximation of B:
   || C - U Bh ||^2 = || C - U B ||^2 + || B - Bh ||^2 *)
Theorem stage_error m r n (U C Bh : mat R) : orth m r U ->
  let B := mmul m (adj U) C in
  frob2 m n (msub C (mmul r U Bh)) = frob2 m n (msub C (mmul r U B)) + frob2 r n (msub B Bh).
Proof.
  intros HU B.
  set (E := msub C (mmul r U B)). set (D := msub B Bh).
  assert (Hsplit : frob2 m n (msub C (mmul r U Bh)) = frob2 m n (madd E (mmul r U D))).
  { assert (He : forall i j, msub C (mmul r U Bh) i j = madd E (mmul r U D) i j).
    { intros i j. unfold msub, madd, E, D, mmul, msub.
      rewrite (sum_n_ext r (fun l => U i l * (B l j - Bh l j)) (fun l => U i l * B l j - U i l * Bh l j)) by (intros; ring).
      rewrite sum_n_sub. ring. }
    unfold frob2. apply ip_ext; intros i j _ _; apply He. }
  rewrite Hsplit, frob2_add.
  assert (HUE : forall a j, (a < r)%nat -> mmul m (adj U) E a j = 0).
  { intros a j Ha.
    transitivity (mmul m (adj U) C a j - mmul m (adj U) (mmul r U B) a j).
    - unfold E, msub. unfold mmul at 1 3 4. rewrite <- sum_n_sub. apply sum_n_ext. intros l _. ring.
    - rewrite orth_cancel by assumption. unfold B. ring. }
  assert (Hc1 : ip m n (mmul r U D) E = 0).
  { rewrite ip_adjoint. unfold ip. apply sum_n_zero'. intros a Ha. apply sum_n_zero'. intros j Hj.
    rewrite HUE by assumption. rewrite conj_0. ring. }
  assert (Hc2 : ip m n E (mmul r U D) = 0) by (rewrite ip_sym_conj, Hc1; apply conj_0).
  rewrite Hc1, Hc2, frob2_isometry by assumption. ring.
Qed.

(* Pythagoras for the projection itself (Bh = 0): || C ||^2 = || C - U B ||^2 + || B ||^2 *)
Corollary stage_pythagoras m r n (U C : mat R) : orth m r U ->
  let B := mmul m (adj U) C in
  frob2 m n C = frob2 m n (msub C (mmul r U B)) + frob2 r n B.
Proof.
  intros HU B. pose proof (stage_error m r n U C (fun _ _ => 0) HU) as H. cbn zeta in H. fold B in H.
  rewrite <- (H) at 1 || idtac.
  transitivity (frob2 m n (msub C (mmul r U (fun _ _ => 0)))).
  - unfold frob2. apply ip_ext; intros i j _ _; unfold msub, mmul; rewrite sum_n_zero' by (intros; ring); ring.
  - rewrite H. f_equal. unfold frob2. apply ip_ext; intros a j _ _; unfold msub; ring.
Qed.

(* reshape: the (r x (n*q)) matrix B seen as an ((r*n) x q) matrix; the Frobenius norm does not change *)
Definition reshape_rows (n q : nat) (B : mat R) : mat R := fun row c => B (row / n)%nat ((row mod n) * q + c)%nat.
Lemma ip_reshape r n q (B B' : mat R) : (0 < n)%nat ->
  ip (r * n) q (reshape_rows n q B) (reshape_rows n q B') = ip r (n * q) B B'.
Proof.
  intros Hn. unfold ip, reshape_rows. rewrite sum_n_prod. apply sum_n_ext. intros a _.
  rewrite sum_n_prod. apply sum_n_ext. intros j Hj.
  replace ((a * n + j) / n)%nat with a.
  2:{ rewrite Nat.div_add_l by lia. rewrite Nat.div_small by lia. lia. }
  replace ((a * n + j) mod n)%nat with j.
  2:{ rewrite Nat.add_comm, Nat.mod_add by lia. rewrite Nat.mod_small; lia. }
  reflexivity.
Qed.
Lemma frob2_reshape r n q (B : mat R) : (0 < n)%nat -> frob2 (r * n) q (reshape_rows n q B) = frob2 r (n * q) B.
Proof. intros. apply ip_reshape. assumption. Qed.

End FrobP.
