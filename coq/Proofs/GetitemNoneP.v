(* x[index] for tuples that also contain None (newaxis): the result holds exactly the entries the dense index expression selects (C08).
   A None inserts an identity core of mode size 1; the call is shown to BE the call on the unsqueezed tensor with a full slice in that place,
   to which the composite theorem for integers and slices applies; the unsqueezed tensor has the entries of x. *)
From Coq Require Import List Arith Lia Ring Bool ZArith.
From TT Require Import RingSig SumN Mat Dense Core CoreP Arith ArithP MatOps Reduce Struct StructP ReduceDimsP Index GetitemP.
Import ListNotations.

Section GetitemNoneP.
Context {R : Type} {RO : RingOps R} {RL : RingLaws R}.
Add Ring Rr60 : Rth.
Open Scope R_scope.
Arguments chainM : simpl never.

Definition dcore (r : nat) : core3 R := mk3 r 1 r (fun p _ q => delta p q).
Definition prevr (racc : tt R) : nat := match racc with c :: _ => r1 c | [] => 1%nat end.
Definition n2s (it : ixitem) : ixitem := match it with INone => full_slice | _ => it end.
(* the tensor with an identity core of mode size 1 at every None *)
Fixpoint unsq (prev : nat) (items : list ixitem) (rest : tt R) : tt R :=
  match items with
  | [] => rest
  | INone :: t => dcore prev :: unsq prev t rest
  | _ :: t => match rest with c :: cs => c :: unsq (r1 c) t cs | [] => [] end
  end.
(* the index of x behind an index of the unsqueezed tensor *)
Fixpoint strip (items : list ixitem) (l : list nat) : list nat :=
  match items, l with
  | INone :: t, _ :: l' => strip t l'
  | _ :: t, a :: l' => a :: strip t l'
  | _, _ => l
  end.
Definition noell (ix : list ixitem) : bool := forallb (fun it => negb (is_ell it)) ix.

Lemma slice_pos_one : slice_pos 1 None None None = Some (0%nat, 1%nat, 1%nat).
Proof. reflexivity. Qed.

Lemma gi_unsq items : forall (rest racc : tt R) i excl, noell items = true ->
  gi_loop items rest racc i excl = gi_loop (map n2s items) (unsq (prevr racc) items rest) racc i excl.
Proof.
  induction items as [|it t IH]; intros rest racc i excl Hn; [reflexivity|].
  simpl in Hn. apply andb_true_iff in Hn. destruct Hn as [Hit Hn].
  destruct it as [z|a b s| |]; [| | |discriminate].
  - cbn [map n2s unsq]. destruct rest as [|c cs]; [reflexivity|]. cbn [gi_loop].
    destruct (norm_int (nn c) z) as [j|]; [|reflexivity].
    rewrite (IH cs (remap_core 1 (fun _ => Some j) c :: racc) (S i) excl Hn). reflexivity.
  - cbn [map n2s unsq]. destruct rest as [|c cs]; [reflexivity|]. cbn [gi_loop].
    destruct (slice_pos (nn c) a b s) as [[[st sp] len]|]; [|reflexivity].
    rewrite (IH cs (remap_core len (fun j => Some (st + j * sp)%nat) c :: racc) (S i) (excl ++ [i]) Hn). reflexivity.
  - transitivity (gi_loop t rest (dcore (prevr racc) :: racc) (S i) (excl ++ [i])); [reflexivity|].
    rewrite (IH rest (dcore (prevr racc) :: racc) (S i) (excl ++ [i]) Hn).
    symmetry. cbn [map n2s unsq]. unfold full_slice. cbn [gi_loop]. change (nn (dcore (prevr racc))) with 1%nat. rewrite slice_pos_one.
    reflexivity.
Qed.

Lemma noell_n2s ix : noell ix = true -> noell (map n2s ix) = true.
Proof. induction ix as [|it t IH]; intros H; [reflexivity|]. simpl in *. apply andb_true_iff in H. destruct H as [H1 H2]. rewrite (IH H2). destruct it; try discriminate; reflexivity. Qed.

Lemma getitem_unsq (x : tt R) ix : noell ix = true -> getitem_tuple x ix = getitem_tuple (unsq 1 ix x) (map n2s ix).
Proof.
  intros Hn. unfold getitem_tuple.
  destruct (no_ell_expand (length x) ix Hn) as [He Hf].
  destruct (no_ell_expand (length (unsq 1 ix x)) (map n2s ix) (noell_n2s ix Hn)) as [He' Hf'].
  rewrite Hf, Hf', He, He'. cbn [length Nat.ltb Nat.leb].
  rewrite (gi_unsq ix x [] 0%nat [] Hn). reflexivity.
Qed.

Lemma slices_nil (y : tt R) : slices y [] = [].
Proof. destruct y; reflexivity. Qed.

(* the unsqueezed tensor has the entries of x *)
Lemma chain_unsq items : forall (rest : tt R) prev l p q, (p < prev)%nat -> chained prev rest ->
  chainM (slices (unsq prev items rest) l) p q = chainM (slices rest (strip items l)) p q.
Proof.
  induction items as [|it t IH]; intros rest prev l p q Hp Hc; [destruct l; reflexivity|].
  destruct l as [|a l'].
  { destruct it; cbn [strip]; rewrite !slices_nil; reflexivity. }
  assert (Hother : chainM (slices (match rest with c :: cs => c :: unsq (r1 c) t cs | [] => [] end) (a :: l')) p q
                   = chainM (slices rest (a :: strip t l')) p q).
  { destruct rest as [|c cs]; [reflexivity|].
    destruct Hc as [_ Hc]. cbn [slices]. rewrite !chainM_cons. apply sum_n_ext. intros u Hu.
    rewrite (IH cs (r1 c) l' u q Hu Hc). reflexivity. }
  destruct it as [z|a0 b s| |]; cbn [unsq strip]; try exact Hother.
  cbn [slices dcore r1 e3]. rewrite chainM_cons.
  rewrite sum_n_delta_l by exact Hp. apply IH; assumption.
Qed.

(* the index maps of the two dense index expressions agree, and the per-mode maps of the unsqueezed call exist *)
Definition nonnone (ix : list ixitem) : nat := length (filter (fun it => negb (is_none it)) ix).
Lemma unsq_specs items : forall (rest : tt R) prev shp g, noell items = true -> nonnone items = length rest ->
  dgi items (shape rest) = Some (shp, g) ->
  exists fs g', item_fs (shape (unsq prev items rest)) (map n2s items) = Some fs /\
                dgi (map n2s items) (shape (unsq prev items rest)) = Some (shp, g') /\
                forall idx, strip items (g' idx) = g idx.
Proof.
  induction items as [|it t IH]; intros rest prev shp g Hn Hc Hd.
  - destruct rest; [|discriminate]. simpl in Hd. inversion Hd; subst. exists [], (fun idx => idx). repeat split; reflexivity.
  - simpl in Hn. apply andb_true_iff in Hn. destruct Hn as [Hit Hn].
    destruct it as [z|a b s| |]; [| | |discriminate].
    + unfold nonnone in Hc. cbn [filter is_none negb length] in Hc. destruct rest as [|c cs]; [discriminate|]. simpl in Hc.
      cbn [shape map dgi] in Hd. fold (shape cs) in Hd.
      destruct (norm_int (nn c) z) as [j|] eqn:En; [|discriminate].
      destruct (dgi t (shape cs)) as [[shp0 g0]|] eqn:Ed; [|discriminate]. inversion Hd; subst shp g.
      destruct (IH cs (r1 c) shp0 g0 Hn ltac:(unfold nonnone; lia) Ed) as [fs [g' [H1 [H2 H3]]]].
      exists ((1%nat, fun _ => Some j) :: fs), (fun idx => j :: g' idx).
      cbn [map n2s unsq shape item_fs dgi]. fold (shape (unsq (r1 c) t cs)). rewrite En, H1, H2. repeat split.
      intros idx. cbn [strip]. rewrite H3. reflexivity.
    + unfold nonnone in Hc. cbn [filter is_none negb length] in Hc. destruct rest as [|c cs]; [discriminate|]. simpl in Hc.
      cbn [shape map dgi] in Hd. fold (shape cs) in Hd.
      destruct (slice_pos (nn c) a b s) as [[[st sp] len]|] eqn:Es; [|discriminate].
      destruct (dgi t (shape cs)) as [[shp0 g0]|] eqn:Ed; [|discriminate]. inversion Hd; subst shp g.
      destruct (IH cs (r1 c) shp0 g0 Hn ltac:(unfold nonnone; lia) Ed) as [fs [g' [H1 [H2 H3]]]].
      exists ((len, fun k => Some (st + k * sp)%nat) :: fs), (fun idx => (st + hd 0%nat idx * sp)%nat :: g' (tl idx)).
      cbn [map n2s unsq shape item_fs dgi]. fold (shape (unsq (r1 c) t cs)). rewrite Es, H1, H2. repeat split.
      intros idx. cbn [strip]. rewrite H3. reflexivity.
    + unfold nonnone in Hc. cbn [filter is_none negb] in Hc. cbn [dgi] in Hd.
      destruct (dgi t (shape rest)) as [[shp0 g0]|] eqn:Ed; [|discriminate]. inversion Hd; subst shp g.
      destruct (IH rest prev shp0 g0 Hn Hc Ed) as [fs [g' [H1 [H2 H3]]]].
      exists ((1%nat, fun k => Some (0 + k * 1)%nat) :: fs), (fun idx => (0 + hd 0%nat idx * 1)%nat :: g' (tl idx)).
      cbn [map n2s unsq shape]. fold (shape (unsq prev t rest)). unfold full_slice. cbn [item_fs dgi nn dcore].
      rewrite slice_pos_one, H1, H2. repeat split.
      intros idx. cbn [strip]. rewrite H3. reflexivity.
Qed.

Definition is_slice_or_none (it : ixitem) : bool := is_slice it || is_none it.
Lemma exists_slice_n2s ix : existsb is_slice_or_none ix = true -> existsb is_slice (map n2s ix) = true.
Proof.
  induction ix as [|it t IH]; intros H; [discriminate|]. simpl in H. apply orb_true_iff in H. simpl.
  destruct H as [H|H]; [|rewrite (IH H); apply orb_true_r].
  destruct it; try discriminate; reflexivity.
Qed.

(* THE COMPOSITE STATEMENT with None: full tuples of integers, slices and None (no Ellipsis) *)
Theorem getitem_with_none (x : tt R) ix shp g :
  wf x -> noell ix = true -> nonnone ix = length x -> dgi ix (shape x) = Some (shp, g) -> existsb is_slice_or_none ix = true ->
  exists y, getitem_tuple x ix = GT y /\ forall idx', length idx' = length shp -> entry y idx' = entry x (g idx').
Proof.
  intros [Hne Hch] Hn Hc Hd Hs.
  destruct (unsq_specs ix x 1%nat shp g Hn Hc Hd) as [fs [g' [H1 [H2 H3]]]].
  assert (Hx' : unsq 1 ix x <> []).
  { destruct ix as [|it t]; [unfold nonnone in Hc; simpl in Hc; destruct x; [congruence|discriminate]|].
    destruct it; cbn [unsq]; try discriminate; destruct x; try congruence; discriminate. }
  rewrite (getitem_unsq x ix Hn).
  destruct (getitem_int_slice_full (unsq 1 ix x) (map n2s ix) fs shp g' Hx' H1 H2 (exists_slice_n2s ix Hs)) as [y [Hy1 Hy2]].
  exists y. split; [exact Hy1|]. intros idx' Hl. rewrite (Hy2 idx' Hl).
  unfold entry. rewrite (chain_unsq ix x 1%nat (g' idx') 0%nat 0%nat ltac:(lia) Hch). rewrite H3. reflexivity.
Qed.

End GetitemNoneP.
