#!/bin/bash
# independent re-check of every compiled Properties file (and everything it depends on) with coqchk; prints the context summary (axioms of all loaded libraries)
cd /verif/coq && timeout 3000 coqchk -silent -o -Q Base TT -Q Model TT -Q Proofs TT -Q Properties TT $(ls Properties/*.v | sed 's/\.v$//; s#Properties/#TT.#')
