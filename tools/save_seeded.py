#!/usr/bin/env python3
"""usage: save_seeded.py <src dir> <name> <property> <caught_by (text)> <needs (text)>"""
import sys, os, shutil, json
src, name, pid, caught, needs = sys.argv[1:6]
dst = "/verif/seeded/" + name
os.makedirs(dst, exist_ok=True)
for f in ("patch.diff", "demo.py", "notes.md"):
    if os.path.exists(os.path.join(src, f)): shutil.copy(os.path.join(src, f), dst)
meta = {"property": pid, "needs_to_manifest": needs, "caught_by": caught,
        "ran": ["tools/confirm_mutant.sh %s %s  (scratch worktree of /repo HEAD: demo without / with the change, full test suite with the change)" % (dst, name),
                "tools/try_mutant.sh %s/patch.diff %s  (git -C /repo apply; ./check %s --tier quick; git -C /repo checkout -- .)" % (dst, pid, pid)]}
json.dump(meta, open(os.path.join(dst, "meta.json"), "w"), indent=1)
