#!/usr/bin/env python3
"""usage: save_harmless.py <src dir> <name> <property> <checks run (space separated)> <outcome text>"""
import sys, os, shutil, json
src, name, pid, checks, outcome = sys.argv[1:6]
dst = "/verif/harmless/" + name
os.makedirs(dst, exist_ok=True)
for f in ("patch.diff", "equiv.py", "notes.md"):
    if os.path.exists(os.path.join(src, f)): shutil.copy(os.path.join(src, f), dst)
json.dump({"property": pid, "kind": "behaviour-preserving refactoring written by an independent sub-agent (it saw only the property text)",
           "quick_checks_run_with_the_refactoring_applied": checks.split(), "outcome": outcome,
           "ran": "tools/try_harmless.sh %s/patch.diff %s" % (dst, checks)}, open(os.path.join(dst, "meta.json"), "w"), indent=1)
