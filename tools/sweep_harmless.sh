#!/bin/bash
# usage: tools/sweep_harmless.sh <workers> <outfile>  -- every behaviour-preserving refactoring of harmless/ that still applies to /repo HEAD is applied in a scratch
# worktree and the quick checks recorded in its meta.json are run in a scratch copy of /verif; one line per refactoring: <name> <PID>=<rc> ... ; every rc must be 0
W=${1:-5}; OUT=${2:-/tmp/sweep_harmless.txt}
names=($(ls /verif/harmless))
rm -rf /tmp/sweeph; mkdir -p /tmp/sweeph; : > "$OUT"
worker() {
  k=$1; shift
  d=/tmp/sweeph/w$k; mkdir -p $d
  rsync -a --exclude .git /verif/ $d/verif/
  git -C /repo worktree add -q --detach $d/repo HEAD
  for n in "$@"; do
    git -C $d/repo checkout -q -- . ; git -C $d/repo clean -qfd
    if git -C $d/repo apply /verif/harmless/$n/patch.diff 2>/dev/null; then
      line="$n"
      for pid in $(python3 -c "import json;print(' '.join(json.load(open('/verif/harmless/$n/meta.json'))['quick_checks_run_with_the_refactoring_applied']))"); do
        ( cd $d/verif && VERIF_REPO=$d/repo VERIF_JOBS=4 ./check $pid --tier quick >/dev/null 2>&1 ); line="$line $pid=$?"
      done
      echo "$line" >> "$OUT"
    else echo "$n NOAPPLY" >> "$OUT"; fi
  done
  git -C /repo worktree remove --force $d/repo; rm -rf $d
}
for k in $(seq 0 $((W-1))); do
  mine=(); i=0
  for n in "${names[@]}"; do [ $((i % W)) -eq $k ] && mine+=("$n"); i=$((i+1)); done
  worker $k "${mine[@]}" &
done
wait
git -C /repo worktree prune
sort "$OUT" -o "$OUT"
echo "refactorings: $(grep -vc NOAPPLY "$OUT") applied, $(grep -c NOAPPLY "$OUT") no longer apply; with an alarm: $(grep -v NOAPPLY "$OUT" | grep -c '=[1-9]')"
