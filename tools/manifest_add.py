#!/usr/bin/env python3
"""usage: manifest_add.py ID 'level text' 'level note' 'technique' [design_ref]  -- adds/replaces the check entry"""
import json, sys
pid, text, note, tech = sys.argv[1:5]
ref = sys.argv[5] if len(sys.argv) > 5 else "DESIGN.md section 6 " + pid
m = json.load(open('/verif/MANIFEST.json'))
m["checks"] = [c for c in m["checks"] if c["property_id"] != pid]
m["checks"].append({"property_id": pid, "quick_cmd": "./check %s --tier quick" % pid, "thorough_cmd": "./check %s --tier thorough" % pid,
  "evidence_file": "evidence/%s.json" % pid, "replay_cmd_template": "./check %s --replay {path}" % pid, "engine": "coq-model+correspondence",
  "level_claimed": {"category": "proof", "text": text, "design_ref": ref}, "level_note": note, "technique": tech})
m["checks"].sort(key=lambda c: c["property_id"])
m["not_applicable"] = [x for x in m["not_applicable"] if x["property_id"] != pid]
m["engines"][0]["serves_properties"] = sorted(c["property_id"] for c in m["checks"])
json.dump(m, open('/verif/MANIFEST.json', 'w'), indent=1)
