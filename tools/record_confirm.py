#!/usr/bin/env python3
"""usage: record_confirm.py <log files>  -- writes the independent confirmation (tools/confirm_mutant.sh output lines) into seeded/<name>/meta.json"""
import sys, re, json, os
for f in sys.argv[1:]:
    for line in open(f):
        m = re.match(r"(C\d\d-m\d+) demo_without=(\S+) demo_with=(\S+) tests_with=\[(.*)\]", line.strip())
        if not m: continue
        p = "/verif/seeded/%s/meta.json" % m.group(1)
        if not os.path.exists(p): continue
        meta = json.load(open(p))
        meta["confirmed"] = {"demo_exit_without_change": m.group(2), "demo_exit_with_change": m.group(3), "test_suite_with_change": re.sub(r", \d+ warnings in .*", "", m.group(4))}
        json.dump(meta, open(p, "w"), indent=1)
