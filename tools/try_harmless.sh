#!/bin/bash
# usage: tools/try_harmless.sh <patch.diff> <PID> [more PIDs...]  -- apply a behaviour-preserving refactoring to /repo, run the quick checks, undo it; every check must exit 0
set -u
patch=$1; shift
cd /repo && git status --short | grep -q . && { echo "/repo not clean"; exit 2; }
git -C /repo apply "$patch" || { echo "patch does not apply"; exit 2; }
bad=0
for pid in "$@"; do
  cp /verif/evidence/$pid.json /tmp/evidence_$pid.keep 2>/dev/null
  out=$(cd /verif && ./check $pid --tier quick 2>&1 | grep -v "^NOTE" | tail -3)
  echo "$out" | tail -1
  echo "$out" | grep -q "exit=0" || { bad=1; echo "$out"; }
  [ -f /tmp/evidence_$pid.keep ] && mv /tmp/evidence_$pid.keep /verif/evidence/$pid.json
done
git -C /repo checkout -- .
echo "harmless refactoring: $([ $bad = 0 ] && echo 'no alarm' || echo 'ALARM')"
