#!/bin/bash
# usage: tools/try_mutant.sh <patch.diff> <PID> [tier]   -- apply a seeded change to /repo, run the check, undo it
set -u
patch=$1; pid=$2; tier=${3:-quick}
cd /repo && git status --short | grep -q . && { echo "/repo not clean"; exit 2; }
git -C /repo apply "$patch" || { echo "patch does not apply"; exit 2; }
cp /verif/evidence/$pid.json /tmp/evidence_$pid.keep 2>/dev/null
cd /verif && ./check $pid --tier $tier 2>&1 | grep -v "^NOTE" | tail -${4:-6}
rc=${PIPESTATUS[0]}
git -C /repo checkout -- .
[ -f /tmp/evidence_$pid.keep ] && mv /tmp/evidence_$pid.keep /verif/evidence/$pid.json   # the evidence file describes the unchanged tree
echo "mutant check exit=$rc"
