#!/bin/bash
# usage: tools/sweep_mutants.sh <workers> <outfile> [name ...]   -- run every active seeded change (or the named ones) through the quick check of its property,
# in parallel: each worker owns a scratch copy of /verif and a scratch worktree of /repo HEAD (under /tmp/sweep), removed at the end. One line per change: <name> exit=<rc>
W=${1:-5}; OUT=${2:-/tmp/sweep_results.txt}; shift 2
names=("$@")
if [ ${#names[@]} -eq 0 ]; then
  names=($(python3 - <<'PY'
import json,glob
for p in sorted(glob.glob('/verif/seeded/*/meta.json')):
    if 'retired' not in json.load(open(p)): print(p.split('/')[-2])
PY
))
fi
rm -rf /tmp/sweep; mkdir -p /tmp/sweep; : > "$OUT"
worker() {
  k=$1; shift
  d=/tmp/sweep/w$k; mkdir -p $d
  rsync -a --exclude .git /verif/ $d/verif/
  git -C /repo worktree add -q --detach $d/repo HEAD
  for n in "$@"; do
    pid=${n%%-*}
    git -C $d/repo checkout -q -- . ; git -C $d/repo clean -qfd
    if git -C $d/repo apply /verif/seeded/$n/patch.diff 2>/dev/null; then
      ( cd $d/verif && VERIF_REPO=$d/repo VERIF_JOBS=4 ./check $pid --tier quick >/dev/null 2>&1 ); rc=$?
    else rc=NOAPPLY; fi
    echo "$n exit=$rc" >> "$OUT"
  done
  git -C /repo worktree remove --force $d/repo; rm -rf $d
}
for k in $(seq 0 $((W-1))); do
  mine=(); i=0
  for n in "${names[@]}"; do [ $((i % W)) -eq $k ] && mine+=("$n"); i=$((i+1)); done
  worker $k "${mine[@]}" &
done
wait
git -C /repo worktree prune
sort "$OUT" -o "$OUT"
echo "swept ${#names[@]} changes: $(grep -c 'exit=1' "$OUT") caught, $(grep -vc 'exit=1' "$OUT") not"
