#!/bin/bash
# usage: tools/confirm_mutant.sh <dir with patch.diff demo.py> <name>  -- independent confirmation in a scratch worktree of /repo HEAD
# prints: demo_without=<rc> demo_with=<rc> tests_with=<summary>
d=$1; name=$2; wt=/tmp/confirm_$name
export OMP_NUM_THREADS=2 PYTHONHASHSEED=0
git -C /repo worktree remove --force $wt 2>/dev/null
git -C /repo worktree add -q --detach $wt HEAD || exit 2
cd $wt
PYTHONPATH=$wt timeout 600 /venv/bin/python $d/demo.py >/tmp/confirm_$name.without 2>&1; r0=$?
if git apply $d/patch.diff 2>/dev/null; then
  PYTHONPATH=$wt timeout 600 /venv/bin/python $d/demo.py >/tmp/confirm_$name.with 2>&1; r1=$?
  t=$(PYTHONPATH=$wt timeout 3000 /venv/bin/python -m pytest -q -p no:cacheprovider --timeout=900 tests 2>&1 | tail -1)
else r1=NA; t="patch does not apply to /repo HEAD"; fi
cd /; git -C /repo worktree remove --force $wt
echo "$name demo_without=$r0 demo_with=$r1 tests_with=[$t]"
