#!/bin/bash
# usage: tools/try_patch_copy.sh <patch.diff> <PID> [tier]   -- like try_mutant.sh but on a scratch copy of /repo HEAD and of /verif (safe to run in parallel; /repo untouched)
set -u
patch=$(readlink -f "$1"); pid=$2; tier=${3:-quick}
d=$(mktemp -d /tmp/tpc.XXXXXX); mkdir -p $d/repo
git -C /repo archive HEAD | tar -x -C $d/repo
( cd $d/repo && git init -q . && git apply "$patch" ) || { echo "patch does not apply"; rm -rf $d; exit 2; }
rsync -a --exclude .git /verif/ $d/verif/
( cd $d/verif && VERIF_REPO=$d/repo VERIF_JOBS=${VERIF_JOBS:-4} ./check $pid --tier $tier 2>&1 | grep -v "^NOTE" | tail -${4:-4} ; exit ${PIPESTATUS[0]} ); rc=$?
rm -rf $d
echo "patch check exit=$rc"
