#!/bin/bash
# usage: tools/try_patch_copy.sh <patch.diff> <PID> [tier]   -- like try_mutant.sh but on a scratch copy of /repo HEAD and of /verif (safe to run in parallel; /repo untouched)
set -u
patch=$(readlink -f "$1"); pid=$2; tier=${3:-quick}
d=$(mktemp -d /tmp/tpc.XXXXXX); mkdir -p $d/repo
git -C /repo archive HEAD | tar -x -C $d/repo
( cd $d/repo && git init -q . && git apply "$patch" ) || { echo "patch does not apply"; rm -rf $d; exit 2; }
rsync -a --exclude .git --exclude 'evidence/replays/*' /verif/ $d/verif/
( cd $d/verif && VERIF_REPO=$d/repo VERIF_JOBS=${VERIF_JOBS:-4} ./check $pid --tier $tier 2>&1 | grep -v "^NOTE" | tail -${4:-4} ; exit ${PIPESTATUS[0]} ); rc=$?
python3 - $d/verif/evidence/replays <<'PY'
import sys, glob, json, os
seen = []
for f in sorted(glob.glob(sys.argv[1] + "/*.json"), key=os.path.getmtime):
    try: k = json.load(open(f)).get("key", "")
    except Exception: continue
    if k and k not in seen: seen.append(k)
for k in seen[:4]: print("KEY: " + k[:300])
PY
rm -rf $d
echo "patch check exit=$rc"
